package main

// Value model (after golang.org/x/tools/go/ssa/interp, with scalars replaced by SMT terms).
//
//   scalar ints/bools/floats   *Term
//   string                     string | memString (raw memory image used by the unsafe hasher)
//   pointer / unsafe.Pointer   *value | symPtr (element of an SMT-array-backed []uint64)
//   struct / array             structure / array ([]value, copied on load/store)
//   slice                      []value | *symSlice ([]uint64 as SMT array)
//   map / chan                 *mapObj / *chanObj
//   interface                  iface{t, v}
//   func                       *ssa.Function | *closure | *ssa.Builtin | *intrinsicFn
//   tuple                      tuple

import (
	"fmt"
	"go/types"
	"strings"

	"golang.org/x/tools/go/ssa"
)

type value interface{}

type structure []value
type array []value
type tuple []value

type iface struct {
	t types.Type
	v value
}

type closure struct {
	Fn  *ssa.Function
	Env []value
}

type intrinsicFn struct {
	name string
	fn   func(fr *frame, args []value) value
}

// memString is the "string" the pre-1.24 hasher fabricates over the memory image of a key.
type memString struct {
	ptr *value
	n   int64
}

// []uint64 backed by an SMT array.
type symBack struct {
	arr *Term
}
type symSlice struct {
	b   *symBack
	len *Term // BV64
	cap *Term
}
type symPtr struct {
	b   *symBack
	idx *Term
}

type mapEntry struct {
	k, v value
}
type mapObj struct {
	entries []mapEntry
	keyT    types.Type
}

type rangeIterMap struct {
	keys []value
	vals []value
	i    int
}
type rangeIterStr struct {
	s string
	i int
}

func bitsOf(b *types.Basic) int {
	switch b.Kind() {
	case types.Int8, types.Uint8:
		return 8
	case types.Int16, types.Uint16:
		return 16
	case types.Int32, types.Uint32:
		return 32
	case types.Float32:
		return 32
	}
	return 64
}

func isSigned(t types.Type) bool {
	if b, ok := t.Underlying().(*types.Basic); ok {
		return b.Info()&types.IsInteger != 0 && b.Info()&types.IsUnsigned == 0
	}
	return false
}

func isFloat(t types.Type) bool {
	if b, ok := t.Underlying().(*types.Basic); ok {
		return b.Info()&types.IsFloat != 0
	}
	return false
}

func isIntegerT(t types.Type) bool {
	if b, ok := t.Underlying().(*types.Basic); ok {
		return b.Info()&types.IsInteger != 0
	}
	return false
}

func isU64Slice(t types.Type) bool {
	if s, ok := t.Underlying().(*types.Slice); ok {
		if b, ok := s.Elem().Underlying().(*types.Basic); ok {
			return b.Kind() == types.Uint64
		}
	}
	return false
}

func sortOfBasic(b *types.Basic) Sort {
	switch {
	case b.Info()&types.IsBoolean != 0:
		return BoolSort
	case b.Info()&types.IsFloat != 0:
		return FP(bitsOf(b))
	default:
		return BV(bitsOf(b))
	}
}

func zero(t types.Type) value {
	switch t := t.(type) {
	case *types.Basic:
		switch {
		case t.Kind() == types.UntypedNil:
			panic("untyped nil has no zero value")
		case t.Info()&types.IsBoolean != 0:
			return falseT
		case t.Info()&types.IsString != 0:
			return ""
		case t.Kind() == types.UnsafePointer:
			return (*value)(nil)
		case t.Info()&types.IsFloat != 0:
			return mkFP(bitsOf(t), 0)
		case t.Info()&types.IsInteger != 0:
			return mkBV(bitsOf(t), 0)
		}
		panic(fmt.Sprintf("zero: unsupported basic %v", t))
	case *types.Pointer:
		return (*value)(nil)
	case *types.Array:
		a := make(array, t.Len())
		for i := range a {
			a[i] = zero(t.Elem())
		}
		return a
	case *types.Named:
		return zero(t.Underlying())
	case *types.Alias:
		return zero(types.Unalias(t))
	case *types.Interface:
		return iface{}
	case *types.Slice:
		return []value(nil)
	case *types.Struct:
		s := make(structure, t.NumFields())
		for i := range s {
			s[i] = zero(t.Field(i).Type())
		}
		return s
	case *types.Tuple:
		if t.Len() == 1 {
			return zero(t.At(0).Type())
		}
		s := make(tuple, t.Len())
		for i := range s {
			s[i] = zero(t.At(i).Type())
		}
		return s
	case *types.Chan:
		return (*chanObj)(nil)
	case *types.Map:
		return (*mapObj)(nil)
	case *types.Signature:
		return (*closure)(nil)
	}
	panic(fmt.Sprintf("zero: unexpected type %T %v", t, t))
}

func copyVal(v value) value {
	switch v := v.(type) {
	case structure:
		a := make(structure, len(v))
		for i := range v {
			a[i] = copyVal(v[i])
		}
		return a
	case array:
		a := make(array, len(v))
		for i := range v {
			a[i] = copyVal(v[i])
		}
		return a
	}
	return v
}

func isNil(v value) bool {
	switch v := v.(type) {
	case nil:
		return true
	case *value:
		return v == nil
	case []value:
		return v == nil
	case *symSlice:
		return v == nil
	case *ghostBytes:
		return v == nil
	case *mapObj:
		return v == nil
	case *chanObj:
		return v == nil
	case *closure:
		return v == nil
	case *ssa.Function:
		return v == nil
	case *intrinsicFn:
		return v == nil
	case iface:
		return v.t == nil
	}
	return false
}

// equals returns a Bool term for x == y (Go semantics) for comparable values.
func equals(x, y value) *Term {
	switch x := x.(type) {
	case *Term:
		return mkEq(x, y.(*Term))
	case string:
		if ys, ok := y.(string); ok {
			return mkBool(x == ys)
		}
		return falseT
	case *value:
		if yp, ok := y.(*value); ok {
			return mkBool(x == yp)
		}
		return mkBool(isNil(x) && isNil(y))
	case symPtr:
		if yp, ok := y.(symPtr); ok {
			return mkAnd(mkBool(x.b == yp.b), mkEq(x.idx, yp.idx))
		}
		return falseT
	case structure:
		ys := y.(structure)
		r := trueT
		for i := range x {
			r = mkAnd(r, equals(x[i], ys[i]))
		}
		return r
	case array:
		ys := y.(array)
		r := trueT
		for i := range x {
			r = mkAnd(r, equals(x[i], ys[i]))
		}
		return r
	case iface:
		yi, ok := y.(iface)
		if !ok {
			return mkBool(x.t == nil && isNil(y))
		}
		if x.t == nil || yi.t == nil {
			return mkBool(x.t == nil && yi.t == nil)
		}
		if !types.Identical(x.t, yi.t) {
			return falseT
		}
		return equals(x.v, yi.v)
	case *chanObj:
		yc, _ := y.(*chanObj)
		return mkBool(x == yc)
	case *mapObj:
		return mkBool(isNil(x) && isNil(y))
	case []value:
		return mkBool(isNil(x) && isNil(y))
	case *symSlice:
		return mkBool(isNil(x) && isNil(y))
	case *closure, *ssa.Function, *intrinsicFn, *ssa.Builtin:
		return mkBool(isNil(x) && isNil(y))
	case nil:
		return mkBool(isNil(y))
	case memString:
		panic("comparison of raw memory string")
	}
	panic(fmt.Sprintf("equals: unsupported %T vs %T", x, y))
}

func toString(v value) string {
	switch v := v.(type) {
	case *Term:
		return v.String()
	case string:
		return fmt.Sprintf("%q", v)
	case structure:
		var ss []string
		for _, e := range v {
			ss = append(ss, toString(e))
		}
		return "{" + strings.Join(ss, ", ") + "}"
	case iface:
		if v.t == nil {
			return "nil"
		}
		return fmt.Sprintf("(%v)%s", v.t, toString(v.v))
	case *value:
		if v == nil {
			return "nil"
		}
		return fmt.Sprintf("%p", v)
	case tuple:
		var ss []string
		for _, e := range v {
			ss = append(ss, toString(e))
		}
		return "(" + strings.Join(ss, ", ") + ")"
	}
	return fmt.Sprintf("%T", v)
}
