package main

import (
	"encoding/json"
	"fmt"
	"go/types"
	"os"
	"path/filepath"
	"sort"
	"strings"
	"sync"
	"time"

	"golang.org/x/tools/go/packages"
	"golang.org/x/tools/go/ssa"
	"golang.org/x/tools/go/ssa/ssautil"
)

const repoModule = "github.com/Yiling-J/theine-go"

type KnownFinding struct {
	Property string `json:"property"`
	Harness  string `json:"harness"`
	Label    string `json:"label"`
	Where    string `json:"where,omitempty"`
	Msg      string `json:"msg_contains,omitempty"` // for deadlock/panic findings: substring of the report
	What     string `json:"what"`
	Status   string `json:"status"` // "known" | "fixed"
	Commit   string `json:"commit,omitempty"`
}

type engine struct {
	prog               *ssa.Program
	pkgs               map[string]*ssa.Package
	initPkgs           []*ssa.Package
	runtimeErrorString types.Type
	errorStringPtr     types.Type
	ctxType            types.Type
	intrCache          sync.Map
	harnessFn          sync.Map
	procs              int
	known              []KnownFinding
	verbose            bool
	solverBin          string
	timeoutMs          int
	seed               int
	workers            int
	parallelHarness    int
	evdir              string
	pathSem            chan struct{}
	dbOnce             sync.Once
	dbFields           map[string]int
	loadSeconds        float64
	fnTotals           map[string]int64
	fnMu               sync.Mutex
}

func (e *engine) isHarnessFn(fn *ssa.Function) bool {
	if v, ok := e.harnessFn.Load(fn); ok {
		return v.(bool)
	}
	f := fn
	for f.Parent() != nil {
		f = f.Parent()
	}
	is := false
	if f.Pos().IsValid() {
		name := filepath.Base(e.prog.Fset.Position(f.Pos()).Filename)
		is = strings.HasPrefix(name, "zz_verif") && !strings.HasPrefix(name, "zz_verif_smoke")
	}
	e.harnessFn.Store(fn, is)
	return is
}

func (e *engine) knownRegions(harness, label string) []*KnownFinding {
	var out []*KnownFinding
	for i := range e.known {
		k := &e.known[i]
		lm := k.Label == label || (strings.HasSuffix(k.Label, "*") && strings.HasPrefix(label, strings.TrimSuffix(k.Label, "*")))
		if k.Status == "known" && lm && (k.Harness == harness || k.Harness == "*") {
			out = append(out, k)
		}
	}
	return out
}

// load builds SSA for the repository as it is on disk now, with harness files overlaid.
func loadEngine(repo string, harnessDir string) (*engine, error) {
	t0 := time.Now()
	overlay := map[string][]byte{}
	addDir := func(src, dst string) error {
		ents, err := os.ReadDir(src)
		if err != nil {
			if os.IsNotExist(err) {
				return nil
			}
			return err
		}
		for _, en := range ents {
			if en.IsDir() || !strings.HasSuffix(en.Name(), ".go") {
				continue
			}
			b, err := os.ReadFile(filepath.Join(src, en.Name()))
			if err != nil {
				return err
			}
			overlay[filepath.Join(dst, en.Name())] = b
		}
		return nil
	}
	if err := addDir(filepath.Join(harnessDir, "internal"), filepath.Join(repo, "internal")); err != nil {
		return nil, err
	}
	if err := addDir(filepath.Join(harnessDir, "theine"), repo); err != nil {
		return nil, err
	}
	cfg := &packages.Config{
		Mode:       packages.LoadAllSyntax,
		Dir:        repo,
		BuildFlags: []string{"-tags=verif"},
		Overlay:    overlay,
		Env:        append(os.Environ(), "GOFLAGS=-mod=mod", "GOPROXY=off", "GOSUMDB=off", "GOTOOLCHAIN=local"),
	}
	pkgs, err := packages.Load(cfg, ".", "./internal")
	if err != nil {
		return nil, err
	}
	var errs []string
	packages.Visit(pkgs, nil, func(p *packages.Package) {
		for _, e := range p.Errors {
			errs = append(errs, e.Error())
		}
	})
	if len(errs) > 0 {
		return nil, fmt.Errorf("load errors:\n%s", strings.Join(errs, "\n"))
	}
	prog, spkgs := ssautil.AllPackages(pkgs, ssa.InstantiateGenerics|ssa.BareInits)
	prog.Build()
	e := &engine{prog: prog, pkgs: map[string]*ssa.Package{}, procs: 1, fnTotals: map[string]int64{}}
	for i, p := range pkgs {
		if spkgs[i] == nil {
			return nil, fmt.Errorf("no SSA for %s", p.PkgPath)
		}
		if p.PkgPath == repoModule {
			e.pkgs["theine"] = spkgs[i]
		} else {
			e.pkgs["internal"] = spkgs[i]
		}
	}
	if rt := prog.ImportedPackage("runtime"); rt != nil {
		e.runtimeErrorString = rt.Type("errorString").Object().Type()
	} else {
		return nil, fmt.Errorf("runtime package not loaded")
	}
	if ep := prog.ImportedPackage("errors"); ep != nil {
		e.errorStringPtr = types.NewPointer(ep.Type("errorString").Object().Type())
	}
	if cp := prog.ImportedPackage("context"); cp != nil {
		e.ctxType = types.NewPointer(cp.Type("cancelCtx").Object().Type())
	}
	// packages whose initialisers the executor runs (dependency order): io, then the repository's own
	var order []*ssa.Package
	seen := map[*types.Package]bool{}
	var visit func(p *types.Package)
	visit = func(p *types.Package) {
		if seen[p] {
			return
		}
		seen[p] = true
		for _, imp := range p.Imports() {
			visit(imp)
		}
		if p.Path() == "io" || strings.HasPrefix(p.Path(), repoModule) {
			if sp := prog.Package(p); sp != nil {
				order = append(order, sp)
			}
		}
	}
	visit(e.pkgs["theine"].Pkg)
	visit(e.pkgs["internal"].Pkg)
	e.initPkgs = order
	e.loadSeconds = time.Since(t0).Seconds()
	return e, nil
}

// ---------------- harness runs ----------------

type HarnessSpec struct {
	Func       string           `json:"func"`
	Pkg        string           `json:"pkg"` // "internal" | "theine"
	Params     map[string]int64 `json:"params,omitempty"`
	MaxPaths   int              `json:"max_paths,omitempty"`
	StepLimit  int64            `json:"step_limit,omitempty"`
	Reach      []string         `json:"reach,omitempty"`
	Bounds     string           `json:"bounds,omitempty"`
	TimeoutSec int              `json:"timeout_s,omitempty"`
	Solver     string           `json:"solver,omitempty"`
}

type harnessRun struct {
	eng    *engine
	spec   HarnessSpec
	name   string
	config string
	params map[string]int64
	fn     *ssa.Function

	mu            sync.Mutex
	paths         int
	pathsByStatus map[string]int
	steps         int64
	transitions   int64
	obligations   map[string]int
	discharged    map[string]int
	inconclusive  map[string]int
	unknownBranch int
	witnesses     map[string]Violation
	witnessOK     map[string]bool
	violations    []Violation
	knownHits     map[*KnownFinding]bool
	errors        []string
	stepLimitHits int
	solver        SolverStats
	maxDepth      int
	wall          float64
	exhausted     bool
	samples       []map[string]interface{}
	forks         map[string]int
}

func (h *harnessRun) noteFork(m *machine) {
	if !h.eng.verbose || m.lastIf == nil {
		return
	}
	key := m.lastIf.Parent().Name() + "@" + posString(h.eng.prog, m.lastIf.Cond.Pos())
	h.mu.Lock()
	if h.forks == nil {
		h.forks = map[string]int{}
	}
	h.forks[key]++
	h.mu.Unlock()
}

func (h *harnessRun) noteForkAt(key string) {
	if !h.eng.verbose {
		return
	}
	h.mu.Lock()
	if h.forks == nil {
		h.forks = map[string]int{}
	}
	h.forks[key]++
	h.mu.Unlock()
}

func (h *harnessRun) noteUnknownBranch() {
	h.mu.Lock()
	h.unknownBranch++
	h.mu.Unlock()
}
func (h *harnessRun) countObligation(l string) {
	h.mu.Lock()
	h.obligations[l]++
	h.mu.Unlock()
}
func (h *harnessRun) countDischarged(l, how string) {
	h.mu.Lock()
	h.discharged[l]++
	h.mu.Unlock()
}
func (h *harnessRun) noteInconclusive(l string) {
	h.mu.Lock()
	h.inconclusive[l]++
	h.mu.Unlock()
}
func (h *harnessRun) knownHit(k *KnownFinding) {
	h.mu.Lock()
	h.knownHits[k] = true
	h.mu.Unlock()
}
func (h *harnessRun) needWitness(l string) bool {
	h.mu.Lock()
	defer h.mu.Unlock()
	_, ok := h.witnesses[l]
	return !ok
}
func (h *harnessRun) addWitness(l string, v Violation) {
	h.mu.Lock()
	if _, ok := h.witnesses[l]; !ok {
		h.witnesses[l] = v
	}
	h.mu.Unlock()
}

func (e *engine) newRun(spec HarnessSpec) (*harnessRun, error) {
	pkg := e.pkgs[spec.Pkg]
	if pkg == nil {
		return nil, fmt.Errorf("unknown package %q", spec.Pkg)
	}
	fn := pkg.Func(spec.Func)
	if fn == nil {
		return nil, fmt.Errorf("harness %s not found in %s", spec.Func, spec.Pkg)
	}
	var cfgs []string
	for k, v := range spec.Params {
		cfgs = append(cfgs, fmt.Sprintf("%s=%d", k, v))
	}
	sort.Strings(cfgs)
	return &harnessRun{eng: e, spec: spec, name: spec.Func, config: strings.Join(cfgs, ","), params: spec.Params, fn: fn,
		pathsByStatus: map[string]int{}, obligations: map[string]int{}, discharged: map[string]int{}, inconclusive: map[string]int{},
		witnesses: map[string]Violation{}, witnessOK: map[string]bool{}, knownHits: map[*KnownFinding]bool{}}, nil
}

func (e *engine) newMachine(h *harnessRun, solver *Solver, item workItem, replay *Violation) *machine {
	m := &machine{eng: e, h: h, solver: solver, prefix: item.prefix, replay: replay,
		globals: map[*ssa.Global]*value{}, doneCh: make(chan struct{}),
		fnCounts: map[*ssa.Function]*int64{}, nameCount: map[string]int{}, varByName: map[string]*Term{},
		notes: map[string]*Term{}, mutexes: map[*value]*mutexState{}, wgs: map[*value]*wgState{}, pools: map[*value][]value{}, poolVC: map[*value][]vclock{},
		mayBeFull: map[*chanObj]bool{}, reached: map[string]bool{}, replayHit: map[string]bool{}, addrs: map[*value]uint64{},
		idealRB: true, poolMode: 1, hashMode: 1,
		clock: mkBV(64, 1_000_000_000_000),
	}
	if item.model != nil {
		m.model = make(map[string]uint64, len(item.model))
		for k, v := range item.model {
			m.model[k] = v
		}
		m.evalCache = map[*Term]uint64{}
	}
	m.stepLimit = h.spec.StepLimit
	if m.stepLimit == 0 {
		m.stepLimit = 3_000_000
	}
	return m
}

// runPath executes one path (prefix then first-choice exploration) and returns the finished machine.
func (e *engine) runPath(h *harnessRun, solver *Solver, item workItem, replay *Violation) *machine {
	m := e.newMachine(h, solver, item, replay)
	if solver != nil {
		solver.Reset()
	}
	main := m.newThread("main")
	m.cur = main
	body := &intrinsicFn{name: "harness-main", fn: func(fr *frame, _ []value) value {
		for _, p := range e.initPkgs {
			if init := p.Func("init"); init != nil {
				call(main, nil, 0, init, nil)
			}
		}
		call(main, nil, 0, h.fn, nil)
		return nil
	}}
	go m.threadMain(main, body, nil)
	main.wake <- struct{}{}
	<-m.doneCh
	for _, t := range m.threads {
		select {
		case <-t.exited:
		case <-time.After(5 * time.Second):
			// a thread that never observed the kill (should not happen)
		}
	}
	return m
}

type exploreOpts struct {
	maxPaths int
	deadline time.Time
}

func (e *engine) explore(h *harnessRun, opts exploreOpts) {
	t0 := time.Now()
	var mu sync.Mutex
	cond := sync.NewCond(&mu)
	stack := []workItem{{}}
	busy := 0
	stop := false
	maxViol := 3
	worker := func(id int) {
		bin := e.solverBin
		if h.spec.Solver != "" {
			bin = h.spec.Solver
		}
		solver := NewSolver(bin, e.timeoutMs, e.seed)
		defer func() {
			mu.Lock()
			h.solver.Sat += solver.stats.Sat
			h.solver.Unsat += solver.stats.Unsat
			h.solver.Unknown += solver.stats.Unknown
			h.solver.Errors += solver.stats.Errors
			h.solver.Seconds += solver.stats.Seconds
			mu.Unlock()
			solver.Close()
		}()
		for {
			mu.Lock()
			for len(stack) == 0 && busy > 0 && !stop {
				cond.Wait()
			}
			if stop || (len(stack) == 0 && busy == 0) {
				mu.Unlock()
				cond.Broadcast()
				return
			}
			item := stack[len(stack)-1]
			stack = stack[:len(stack)-1]
			busy++
			mu.Unlock()

			e.pathSem <- struct{}{} // at most `workers` paths execute at a time across all harnesses of this process
			m := e.runPath(h, solver, item, nil)
			<-e.pathSem

			mu.Lock()
			busy--
			stack = append(stack, m.alts...)
			h.mu.Lock()
			h.paths++
			h.pathsByStatus[m.status]++
			h.steps += m.steps
			h.transitions += m.transitions
			if len(m.trace) > h.maxDepth {
				h.maxDepth = len(m.trace)
			}
			if m.status == "error" {
				if len(h.errors) < 5 {
					h.errors = append(h.errors, m.errMsg)
				}
			}
			if m.status == "steplimit" {
				h.stepLimitHits++
			}
			h.violations = append(h.violations, m.violations...)
			if len(h.samples) < 3 && m.status == "ok" {
				s := map[string]interface{}{"status": m.status, "decisions": len(m.trace), "instructions": m.steps, "path_condition_conjuncts": len(m.pc)}
				notes := map[string]string{}
				for _, n := range m.noteOrder {
					notes[n] = m.notes[n].String()
				}
				if len(notes) > 0 {
					s["notes"] = notes
				}
				h.samples = append(h.samples, s)
			}
			nviol := len(h.violations)
			npaths := h.paths
			h.mu.Unlock()
			e.fnMu.Lock()
			for fn, c := range m.fnCounts {
				e.fnTotals[fn.String()] += *c
			}
			e.fnMu.Unlock()
			if nviol >= maxViol || len(h.errors) >= 5 || (opts.maxPaths > 0 && npaths >= opts.maxPaths) || (!opts.deadline.IsZero() && time.Now().After(opts.deadline)) {
				stop = true
			}
			mu.Unlock()
			cond.Broadcast()
		}
	}
	progressDone := make(chan struct{})
	go func() {
		tk := time.NewTicker(20 * time.Second)
		defer tk.Stop()
		for {
			select {
			case <-progressDone:
				return
			case <-tk.C:
				mu.Lock()
				h.mu.Lock()
				fmt.Fprintf(os.Stderr, "  ... %s: %d paths done, %d pending, %d busy, %.0fs\n", h.name, h.paths, len(stack), busy, time.Since(t0).Seconds())
				h.mu.Unlock()
				mu.Unlock()
			}
		}
	}()
	defer close(progressDone)
	var wg sync.WaitGroup
	n := e.workers
	if n < 1 {
		n = 1
	}
	for i := 0; i < n; i++ {
		wg.Add(1)
		go func(i int) { defer wg.Done(); worker(i) }(i)
	}
	wg.Wait()
	h.exhausted = len(stack) == 0 && !stop
	if len(stack) == 0 && stop && len(h.violations) == 0 && len(h.errors) == 0 {
		// stop was raised by the very last path
		h.exhausted = true
	}
	h.wall = time.Since(t0).Seconds()
}

// replayRecord re-executes a model concretely and reports whether the recorded event happens again.
func (e *engine) replayRecord(h *harnessRun, rec *Violation) (bool, string) {
	m := e.runPath(h, nil, workItem{}, rec)
	key := "violation:" + rec.Label
	if rec.Kind == "witness" {
		key = "reach:" + rec.Label
	}
	if m.replayHit[key] {
		return true, ""
	}
	return false, fmt.Sprintf("replay ended with status %q %s (hits: %v)", m.status, m.errMsg, sortedKeys(m.replayHit))
}

func writeJSON(path string, v interface{}) error {
	b, err := json.MarshalIndent(v, "", " ")
	if err != nil {
		return err
	}
	os.MkdirAll(filepath.Dir(path), 0o755)
	return os.WriteFile(path, b, 0o644)
}
