package main

// One machine = one path execution: heap, threads, path condition, decision trace.

import (
	"fmt"
	"go/token"
	"go/types"
	"sort"
	"strings"

	"golang.org/x/tools/go/ssa"
)

type Decision struct {
	K byte     `json:"k"`           // 'b' branch, 'c' choose, 's' schedule, 'v' concretise
	C int      `json:"c"`           // choice index (b: 0/1)
	V uint64   `json:"v,omitempty"` // 'v': chosen value
	X []uint64 `json:"x,omitempty"` // 'v' (last element of a work item only): pick a value not in X
	F bool     `json:"f,omitempty"` // forced: no alternative existed
}

type Violation struct {
	Harness string              `json:"harness"`
	Config  string              `json:"config,omitempty"`
	Label   string              `json:"label"`
	Msg     string              `json:"msg"`
	Values  map[string]ModelVal `json:"values"`
	UF      []UFPoint           `json:"uf,omitempty"`
	Arrays  []ArrPoint          `json:"arrays,omitempty"`
	Trace   []Decision          `json:"trace"`
	Notes   map[string]int64    `json:"notes,omitempty"`
	Kind    string              `json:"kind"` // "violation" | "witness"
}

type UFPoint struct {
	Name string   `json:"name"`
	Args []uint64 `json:"args"`
	Res  uint64   `json:"res"`
}
type ArrPoint struct {
	Name string `json:"name"`
	Idx  uint64 `json:"idx"`
	Val  uint64 `json:"val"`
}

type thread struct {
	id      int
	m       *machine
	wake    chan struct{}
	done    bool
	blocked func() bool
	what    string // what it is blocked on (for deadlock reports)
	depth   int
	name    string
	vc      vclock
	exited  chan struct{}
	curFn   string
	fn      *ssa.Function
}

type mutexState struct {
	locked  bool
	readers int
	relVC   vclock
	rrelVC  vclock
}

type wgState struct {
	n     int64
	relVC vclock
}

type tickerState struct {
	ch      *chanObj
	stopped bool
	cell    *value
}

type machine struct {
	eng     *engine
	h       *harnessRun
	solver  *Solver
	pc      []*Term
	trace   []Decision
	prefix  []Decision
	pos     int
	alts    []workItem
	globals map[*ssa.Global]*value

	threads     []*thread
	cur         *thread
	killing     bool
	doneCh      chan struct{}
	preemptions int
	atomVisible bool
	poolMode    int
	hashMode    int
	idealRB     bool

	steps       int64
	stepLimit   int64
	symBranches int
	stepLabel   string
	fnCounts    map[*ssa.Function]*int64
	clock       *Term
	nameCount   map[string]int
	vars        []*Term
	varByName   map[string]*Term
	ufApps      []*Term
	arrReads    []arrRead
	notes       map[string]*Term
	noteOrder   []string
	mutexes     map[*value]*mutexState
	wgs         map[*value]*wgState
	pools       map[*value][]value
	poolVC      map[*value][]vclock
	tickers     []*tickerState
	chanCount   int
	mayBeFull   map[*chanObj]bool
	addrs       map[*value]uint64
	stubs       map[string]*stubState
	model       map[string]uint64
	pending     []pendingObl
	ghostIDs    int
	splitBlocks bool
	lastIf      *ssa.If
	flushing    bool
	oblSeq      int
	evalCache   map[*Term]uint64
	status      string // "", "ok", "infeasible", "error", "steplimit", "deadlock", "panic"
	errMsg      string
	violations  []Violation
	reached     map[string]bool
	replay      *Violation // non-nil: concrete replay of this record
	replayPos   int
	replayHit   map[string]bool // labels whose assertion evaluated to false / reach labels hit
	race        *raceState
	transitions int64
}

type stubState struct {
	calls  int
	nondet bool
}

type arrRead struct {
	arr *Term
	idx *Term
}

// ---------- path condition & decisions ----------

func (m *machine) addPC(t *Term) {
	if t.IsTrue() {
		return
	}
	if m.model != nil {
		if v, ok := m.eval(t); !ok || v != 1 {
			m.dropModel()
		}
	}
	m.addPCKeepModel(t)
}

func (m *machine) addPCKeepModel(t *Term) {
	if t.IsTrue() {
		return
	}
	m.flush()
	m.pc = append(m.pc, t)
	if m.solver != nil {
		m.solver.Assert(t)
	}
}

func (m *machine) endPath(reason string) {
	panic(pathEnd{reason})
}

func (m *machine) nextPrefix(kind byte) (Decision, bool) {
	if m.pos < len(m.prefix) {
		d := m.prefix[m.pos]
		if d.K != kind {
			panic(engineError{fmt.Sprintf("non-deterministic re-execution: decision %d expected kind %c, prefix has %c", m.pos, kind, d.K)})
		}
		m.pos++
		return d, true
	}
	return Decision{}, false
}

type workItem struct {
	prefix []Decision
	model  map[string]uint64
}

func (m *machine) pushAlt(d Decision) { m.pushAltModel(d, nil) }

func (m *machine) pushAltModel(d Decision, vals []ModelVal) {
	alt := make([]Decision, len(m.trace)+1)
	copy(alt, m.trace)
	alt[len(m.trace)] = d
	var mod map[string]uint64
	if vals != nil && len(vals) >= len(m.vars) {
		mod = make(map[string]uint64, len(m.vars))
		for i, v := range m.vars {
			mod[v.name] = vals[i].Bits
		}
	}
	m.alts = append(m.alts, workItem{alt, mod})
}

// branch decides a symbolic condition, forking when both sides are feasible.
func (m *machine) branch(c *Term) bool {
	if c.isC {
		return c.c == 1
	}
	if m.replay != nil {
		panic(engineError{"symbolic branch condition during concrete replay: " + c.String()})
	}
	// unwinding bound for loops whose trip count is symbolic: a path may take at most maxSymBranches
	// solver-decided branches; beyond that the path is reported as an unwinding failure, like the
	// instruction budget
	m.symBranches++
	if m.symBranches > maxSymBranches {
		m.stepLimitHit()
	}
	if d, ok := m.nextPrefix('b'); ok {
		m.trace = append(m.trace, Decision{K: 'b', C: d.C, F: d.F})
		if d.C == 1 {
			m.addPCKeepModel(c)
		} else {
			m.addPCKeepModel(mkNot(c))
		}
		return d.C == 1
	}
	nc := mkNot(c)
	if v, ok := m.eval(c); ok {
		// the model satisfies one side: only the other needs a query
		side, other := c, nc
		if v == 0 {
			side, other = nc, c
		}
		r, vals := m.check([]*Term{other}, m.vars)
		if r == "unsat" {
			m.trace = append(m.trace, Decision{K: 'b', C: int(v), F: true})
			m.addPCKeepModel(side)
			return v == 1
		}
		if r == "unknown" {
			m.h.noteUnknownBranch()
			vals = nil
		}
		m.pushAltModel(Decision{K: 'b', C: int(v ^ 1)}, vals)
		m.h.noteFork(m)
		m.trace = append(m.trace, Decision{K: 'b', C: int(v)})
		m.addPCKeepModel(side)
		return v == 1
	}
	r1, v1 := m.check([]*Term{c}, m.vars)
	if r1 == "unsat" {
		m.trace = append(m.trace, Decision{K: 'b', C: 0, F: true})
		m.addPC(nc)
		return false
	}
	r2, v2 := m.check([]*Term{nc}, m.vars)
	if r2 == "unsat" {
		m.trace = append(m.trace, Decision{K: 'b', C: 1, F: true})
		m.addPC(c)
		if r1 == "sat" {
			m.setModel(v1)
		}
		return true
	}
	if r1 == "unknown" || r2 == "unknown" {
		m.h.noteUnknownBranch()
	}
	if r2 != "sat" {
		v2 = nil
	}
	m.pushAltModel(Decision{K: 'b', C: 0}, v2)
	m.h.noteFork(m)
	m.trace = append(m.trace, Decision{K: 'b', C: 1})
	m.addPC(c)
	if r1 == "sat" {
		m.setModel(v1)
	}
	return true
}

// choose makes an n-ary nondeterministic choice that does not involve the solver.
func (m *machine) choose(n int, kind byte) int {
	if n <= 1 {
		return 0
	}
	if m.replay != nil {
		for m.replayPos < len(m.replay.Trace) {
			d := m.replay.Trace[m.replayPos]
			m.replayPos++
			if d.K == 'c' || d.K == 's' {
				if d.K != kind {
					panic(engineError{"replay: decision kind mismatch"})
				}
				if d.C >= n {
					panic(engineError{"replay: choice out of range"})
				}
				m.trace = append(m.trace, d)
				return d.C
			}
		}
		m.trace = append(m.trace, Decision{K: kind, C: 0})
		return 0
	}
	if d, ok := m.nextPrefix(kind); ok {
		if d.C >= n {
			panic(engineError{"non-deterministic re-execution: choice out of range"})
		}
		m.trace = append(m.trace, Decision{K: kind, C: d.C})
		return d.C
	}
	for i := n - 1; i >= 1; i-- {
		m.pushAlt(Decision{K: kind, C: i})
	}
	m.h.noteForkAt("choice:" + string(kind))
	m.trace = append(m.trace, Decision{K: kind, C: 0})
	return 0
}

// concretize returns a concrete value for t, forking over all feasible values.
func (m *machine) concretize(t *Term, why string) int64 {
	if t.isC {
		return t.Int()
	}
	if m.replay != nil {
		panic(engineError{"symbolic value during concrete replay (" + why + "): " + t.String()})
	}
	w := t.sort.W
	pick := func(excl []uint64) (uint64, []ModelVal, bool) {
		var ex []*Term
		for _, x := range excl {
			ex = append(ex, mkNot(mkEq(t, mkBV(w, x))))
		}
		want := append(append([]*Term{}, m.vars...), t)
		r, vals := m.check(ex, want)
		if r != "sat" {
			if r == "unknown" {
				m.h.noteUnknownBranch()
			}
			return 0, nil, false
		}
		return vals[len(vals)-1].Bits, vals[:len(vals)-1], true
	}
	var v uint64
	var excl []uint64
	have := false
	if d, ok := m.nextPrefix('v'); ok {
		if d.X != nil {
			excl = d.X
			if mv, ok := m.eval(t); ok {
				v, have = mv, true
				for _, x := range excl {
					if x == v {
						have = false
					}
				}
			}
			if !have {
				nv, vals, ok := pick(excl)
				if !ok {
					m.endPath("infeasible")
				}
				v = nv
				m.setModel(vals)
			}
		} else {
			v = d.V
			m.trace = append(m.trace, Decision{K: 'v', V: v})
			m.addPCKeepModel(mkEq(t, mkBV(w, v)))
			return signExt(v, w)
		}
	} else {
		if mv, ok := m.eval(t); ok {
			v = mv
		} else {
			nv, vals, ok := pick(nil)
			if !ok {
				m.endPath("infeasible")
			}
			v = nv
			m.setModel(vals)
		}
	}
	// is there another value?
	excl2 := append(append([]uint64{}, excl...), v)
	if len(excl2) > 4096 {
		panic(engineError{"concretize: more than 4096 feasible values for " + why})
	}
	if _, vals, more := pick(excl2); more {
		m.pushAltModel(Decision{K: 'v', X: excl2}, vals)
		if m.cur != nil && m.cur.fn != nil {
			m.h.noteForkAt("concretize:" + why + "@" + m.cur.fn.Name() + " " + t.String())
		} else {
			m.h.noteForkAt("concretize:" + why)
		}
	}
	m.trace = append(m.trace, Decision{K: 'v', V: v})
	m.addPC(mkEq(t, mkBV(w, v)))
	return signExt(v, w)
}

// ---------- symbolic variables ----------

func (m *machine) fresh(name string, s Sort) *Term {
	k := m.nameCount[name]
	m.nameCount[name]++
	full := name
	if k > 0 {
		full = fmt.Sprintf("%s#%d", name, k)
	}
	if m.replay != nil {
		mv := m.replay.Values[full]
		switch s.K {
		case SBool:
			return mkBool(mv.Bits != 0)
		case SBV:
			return mkBV(s.W, mv.Bits)
		case SFP:
			return mkFP(s.W, mv.F)
		case SArr:
			arr := mkConstArr(mkBV(64, 0))
			for _, p := range m.replay.Arrays {
				if p.Name == full {
					arr = mkStore(arr, mkBV(64, p.Idx), mkBV(64, p.Val))
				}
			}
			return arr
		}
	}
	v := mkVar(full, s)
	if s.K != SArr {
		m.vars = append(m.vars, v)
	}
	m.varByName[full] = v
	return v
}

func (m *machine) uf(name string, ret Sort, args ...*Term) *Term {
	allC := true
	for _, a := range args {
		if !a.isC {
			allC = false
		}
	}
	if m.replay != nil && allC {
		for _, p := range m.replay.UF {
			if p.Name == name && len(p.Args) == len(args) {
				same := true
				for i := range args {
					if p.Args[i] != args[i].c {
						same = false
					}
				}
				if same {
					return mkBV(ret.W, p.Res)
				}
			}
		}
		// default interpretation: a fixed mixing function (any function is a model of an uninterpreted symbol)
		h := uint64(0x9e3779b97f4a7c15)
		for _, a := range args {
			h = mix64(h ^ a.c)
		}
		return mkBV(ret.W, h)
	}
	t := mkUF(name, ret, args...)
	m.ufApps = append(m.ufApps, t)
	return t
}

func mix64(x uint64) uint64 {
	x ^= x >> 30
	x *= 0xbf58476d1ce4e5b9
	x ^= x >> 27
	x *= 0x94d049bb133111eb
	x ^= x >> 31
	return x
}

// ---------- assertions ----------

func (m *machine) modelWant() []*Term {
	var want []*Term
	want = append(want, m.vars...)
	for _, n := range m.noteOrder {
		want = append(want, m.notes[n])
	}
	for _, u := range m.ufApps {
		want = append(want, u)
		want = append(want, u.args...)
	}
	for _, r := range m.arrReads {
		want = append(want, r.idx, mkSelect(r.arr, r.idx))
	}
	return want
}

func (m *machine) buildRecord(kind, label, msg string, vals []ModelVal) Violation {
	v := Violation{Harness: m.h.name, Config: m.h.config, Label: label, Msg: msg, Kind: kind,
		Values: map[string]ModelVal{}, Notes: map[string]int64{}}
	i := 0
	if vals != nil {
		for _, t := range m.vars {
			v.Values[t.name] = vals[i]
			i++
		}
		for _, n := range m.noteOrder {
			v.Notes[n] = signExt(vals[i].Bits, m.notes[n].sort.W)
			i++
		}
		for _, u := range m.ufApps {
			p := UFPoint{Name: u.op[3:], Res: vals[i].Bits}
			i++
			for range u.args {
				p.Args = append(p.Args, vals[i].Bits)
				i++
			}
			v.UF = append(v.UF, p)
		}
		for _, r := range m.arrReads {
			v.Arrays = append(v.Arrays, ArrPoint{Name: r.arr.name, Idx: vals[i].Bits, Val: vals[i+1].Bits})
			i += 2
		}
	} else {
		for _, n := range m.noteOrder {
			if m.notes[n].isC {
				v.Notes[n] = m.notes[n].Int()
			}
		}
	}
	v.Trace = append([]Decision{}, m.trace...)
	return v
}

type pendingObl struct {
	label string
	cond  *Term
	seq   int
}

// check flushes batched assertions and then asks the solver.
func (m *machine) check(extras []*Term, want []*Term) (string, []ModelVal) {
	m.flush()
	return m.solver.Check(extras, want)
}

func (m *machine) inPrefix() bool { return m.replay == nil && m.pos < len(m.prefix) }

// obligation checks that cond holds on every completion of the current path condition.
// Assertions met while re-executing the prefix of a work item were decided by the ancestor path under the
// identical path condition and are not asked again; consecutive assertions under one path condition are
// decided by one query on their conjunction (and one by one if that is satisfiable).
func (m *machine) obligation(label string, cond *Term) {
	m.oblSeq++
	if m.replay != nil {
		if !cond.isC {
			panic(engineError{"symbolic assertion during concrete replay"})
		}
		if cond.c == 0 {
			m.replayHit["violation:"+label] = true
			m.endPath("violation")
		}
		return
	}
	if m.inPrefix() {
		if d := m.prefix[m.pos]; d.K == 'a' && d.V == uint64(m.oblSeq) {
			m.pos++
			m.trace = append(m.trace, d)
			m.addPCKeepModel(cond)
		}
		return
	}
	m.h.countObligation(label)
	if cond.IsTrue() {
		m.h.countDischarged(label, "const")
		return
	}
	m.pending = append(m.pending, pendingObl{label, cond, m.oblSeq})
	if cond.IsFalse() {
		m.flush()
	}
}

func (m *machine) flush() {
	if len(m.pending) == 0 || m.flushing {
		return
	}
	m.flushing = true
	defer func() { m.flushing = false }()
	p := m.pending
	m.pending = nil
	if len(p) > 1 {
		conj := trueT
		for _, o := range p {
			conj = mkAnd(conj, o.cond)
		}
		if res, _ := m.solver.Check([]*Term{mkNot(conj)}, nil); res == "unsat" {
			for _, o := range p {
				m.h.countDischarged(o.label, "unsat")
			}
			return
		}
	}
	for _, o := range p {
		m.obligationNow(o.label, o.cond, o.seq)
	}
}

func (m *machine) assumeAfterFailure(cond *Term, seq int) {
	m.trace = append(m.trace, Decision{K: 'a', V: uint64(seq), F: true})
	m.addPC(cond)
}

func (m *machine) obligationNow(label string, cond *Term, seq int) {
	nc := mkNot(cond)
	res, vals := m.solver.Check([]*Term{nc}, m.modelWant())
	switch res {
	case "unsat":
		m.h.countDischarged(label, "unsat")
		return
	case "unknown":
		m.h.noteInconclusive(label)
		m.assumeAfterFailure(cond, seq)
		return
	}
	// sat: is it a listed known finding?
	regions := m.eng.knownRegions(m.h.name, label)
	if len(regions) > 0 {
		var inAny *Term = falseT
		var rts []*Term
		for _, r := range regions {
			rt := m.regionTerm(r.Where)
			rts = append(rts, rt)
			inAny = mkOr(inAny, rt)
		}
		res2, vals2 := m.solver.Check([]*Term{nc, mkNot(inAny)}, m.modelWant())
		if res2 == "unsat" {
			for i, r := range regions {
				if rts[i].IsTrue() {
					m.h.knownHit(r)
					continue
				}
				if r3, _ := m.solver.Check([]*Term{nc, rts[i]}, nil); r3 == "sat" {
					m.h.knownHit(r)
				}
			}
			if cond.IsFalse() {
				m.endPath("known-finding")
			}
			m.assumeAfterFailure(cond, seq)
			return
		}
		if res2 == "unknown" {
			m.h.noteInconclusive(label)
			m.assumeAfterFailure(cond, seq)
			return
		}
		vals = vals2
	}
	rec := m.buildRecord("violation", label, "assertion can fail", vals)
	m.violations = append(m.violations, rec)
	if cond.IsFalse() {
		m.endPath("violation")
	}
	m.assumeAfterFailure(cond, seq)
}

// violationNow records an unconditional violation on this path (deadlock, uncaught panic ...).
func (m *machine) violationNow(label, msg string) {
	if m.replay != nil {
		m.replayHit["violation:"+label] = true
		return
	}
	if m.inPrefix() {
		return
	}
	m.h.countObligation(label)
	var regions []*KnownFinding
	for _, r := range m.eng.knownRegions(m.h.name, label) {
		if r.Msg == "" || strings.Contains(msg, r.Msg) {
			regions = append(regions, r)
		}
	}
	if len(regions) > 0 {
		var inAny *Term = falseT
		for _, r := range regions {
			inAny = mkOr(inAny, m.regionTerm(r.Where))
		}
		res2, _ := m.check([]*Term{mkNot(inAny)}, nil)
		if res2 == "unsat" {
			for _, r := range regions {
				m.h.knownHit(r)
			}
			return
		}
	}
	res, vals := m.check(nil, m.modelWant())
	if res == "unsat" {
		// the path was only kept because an earlier feasibility query timed out: it is infeasible
		return
	}
	if res != "sat" {
		m.h.noteInconclusive(label)
		return
	}
	rec := m.buildRecord("violation", label, msg, vals)
	m.violations = append(m.violations, rec)
}

func (m *machine) reach(label string) {
	if m.replay != nil {
		m.replayHit["reach:"+label] = true
		return
	}
	if m.inPrefix() || !m.h.needWitness(label) {
		return
	}
	res, vals := m.check(nil, m.modelWant())
	if res != "sat" {
		return
	}
	rec := m.buildRecord("witness", label, "reachability witness", vals)
	m.h.addWitness(label, rec)
}

// regionTerm parses "name>=1 && other==3" over notes and named symbolic values.
func (m *machine) regionTerm(where string) *Term {
	where = strings.TrimSpace(where)
	if where == "" || where == "true" {
		return trueT
	}
	res := trueT
	for _, atom := range strings.Split(where, "&&") {
		atom = strings.TrimSpace(atom)
		var op string
		for _, o := range []string{"==", "!=", "<=", ">=", "<", ">"} {
			if strings.Contains(atom, o) {
				op = o
				break
			}
		}
		if op == "" {
			panic(engineError{"bad region atom: " + atom})
		}
		parts := strings.SplitN(atom, op, 2)
		name := strings.TrimSpace(parts[0])
		var cv int64
		fmt.Sscan(strings.TrimSpace(parts[1]), &cv)
		t, ok := m.notes[name]
		if !ok {
			t, ok = m.varByName[name]
		}
		if !ok {
			// name not defined on this path: region does not apply
			return falseT
		}
		var c *Term
		if t.sort.K == SBool {
			c = mkBool(cv != 0)
		} else {
			c = mkBV(t.sort.W, uint64(cv))
		}
		var a *Term
		switch op {
		case "==":
			a = mkEq(t, c)
		case "!=":
			a = mkNot(mkEq(t, c))
		case "<":
			a = mkCmp("bvslt", t, c)
		case "<=":
			a = mkCmp("bvsle", t, c)
		case ">":
			a = mkCmp("bvslt", c, t)
		case ">=":
			a = mkCmp("bvsle", c, t)
		}
		res = mkAnd(res, a)
	}
	return res
}

func (m *machine) fnCount(fn *ssa.Function) *int64 {
	if c, ok := m.fnCounts[fn]; ok {
		return c
	}
	c := new(int64)
	m.fnCounts[fn] = c
	return c
}

const maxSymBranches = 3000

func (m *machine) stepLimitHit() {
	if m.stepLabel != "" {
		m.violationNow(m.stepLabel, fmt.Sprintf("step budget of %d instructions exhausted (non-termination within the stated bound)", m.stepLimit))
		m.endPath("violation")
	}
	m.status = "steplimit"
	m.endPath("steplimit")
}

// ---------- threads ----------

func (m *machine) newThread(name string) *thread {
	t := &thread{id: len(m.threads), m: m, wake: make(chan struct{}, 1), name: name, exited: make(chan struct{})}
	m.threads = append(m.threads, t)
	return t
}

func (m *machine) spawn(parent *thread, fn value, args []value, pos token.Pos) {
	name := "go@" + posString(m.eng.prog, pos)
	t := m.newThread(name)
	if m.race != nil {
		m.race.fork(parent, t)
	}
	go m.threadMain(t, fn, args)
}

func (m *machine) threadMain(t *thread, fn value, args []value) {
	defer close(t.exited)
	<-t.wake
	if m.killing {
		return
	}
	var outcome interface{}
	finished := false
	func() {
		defer func() { outcome = recover() }()
		call(t, nil, token.NoPos, fn, args)
		finished = true
	}()
	if _, ok := outcome.(threadKilled); ok || (m.killing && m.cur != t) {
		return
	}
	// from here on this thread holds the baton
	safely := func(f func()) {
		defer func() {
			if r := recover(); r != nil {
				if ee, ok := r.(engineError); ok {
					m.status, m.errMsg = "error", ee.msg
				} else if _, ok := r.(pathEnd); ok {
				} else {
					m.status, m.errMsg = "error", fmt.Sprintf("interpreter crash: %v", r)
				}
			}
		}()
		f()
	}
	switch r := outcome.(type) {
	case nil, goexitSignal:
		if outcome == nil && !finished {
			m.status, m.errMsg = "error", "thread ended without result"
			m.finish(t)
			return
		}
		t.done = true
		if t.id == 0 {
			if m.replay == nil {
				safely(func() { m.flush() })
			}
			if m.status == "" {
				m.status = "ok"
			}
			m.finish(t)
			return
		}
		m.scheduleAfterExit(t)
	case pathEnd:
		if m.status == "" {
			m.status = r.reason
		}
		m.finish(t)
	case engineError:
		m.status, m.errMsg = "error", r.msg
		m.finish(t)
	case targetPanic:
		m.status = "panic"
		msg := "uncaught panic in " + t.name + ": " + toString(r.v)
		safely(func() { m.violationNow("no-panic", msg) })
		m.finish(t)
	default:
		m.status, m.errMsg = "error", fmt.Sprintf("interpreter crash: %v", r)
		m.finish(t)
	}
}

// finish ends the path: kill every other thread and signal the explorer.
func (m *machine) finish(self *thread) {
	m.killing = true
	for _, t := range m.threads {
		if t == self || t.done {
			continue
		}
		select {
		case t.wake <- struct{}{}:
		default:
		}
	}
	close(m.doneCh)
}

func (m *machine) enabled(t *thread) bool {
	if t.done {
		return false
	}
	return t.blocked == nil || t.blocked()
}

func (m *machine) enabledList(first *thread) []*thread {
	var out []*thread
	if first != nil && m.enabled(first) {
		out = append(out, first)
	}
	for _, t := range m.threads {
		if t != first && m.enabled(t) {
			out = append(out, t)
		}
	}
	return out
}

func (m *machine) switchTo(from, to *thread) {
	if from == to {
		return
	}
	m.cur = to
	to.wake <- struct{}{}
	if from != nil {
		<-from.wake
		if m.killing {
			panic(threadKilled{})
		}
	}
}

// sched is a scheduling point of thread th, which wants to perform an operation enabled when ready() holds.
func (m *machine) sched(th *thread, what string, ready func() bool) {
	m.transitions++
	th.blocked = ready
	th.what = what
	en := m.enabledList(th)
	if len(en) == 0 {
		m.deadlock(th)
	}
	selfEnabled := en[0] == th
	var next *thread
	if selfEnabled && (m.preemptions <= 0 || len(en) == 1) {
		next = th
	} else {
		c := m.choose(len(en), 's')
		next = en[c]
		if selfEnabled && next != th {
			m.preemptions--
		}
	}
	m.switchTo(th, next)
	th.blocked = nil
	th.what = ""
}

func (m *machine) scheduleAfterExit(t *thread) {
	en := m.enabledList(nil)
	if len(en) == 0 {
		m.deadlockFromExit(t)
		return
	}
	c := 0
	func() {
		defer func() {
			if r := recover(); r != nil {
				if ee, ok := r.(engineError); ok {
					m.status, m.errMsg = "error", ee.msg
					m.finish(t)
					c = -1
					return
				}
				panic(r)
			}
		}()
		c = m.choose(len(en), 's')
	}()
	if c < 0 {
		return
	}
	m.cur = en[c]
	en[c].wake <- struct{}{}
}

func (m *machine) describeBlocked() string {
	var ss []string
	for _, t := range m.threads {
		if !t.done {
			ss = append(ss, fmt.Sprintf("T%d(%s) blocked on %s", t.id, t.name, t.what))
		}
	}
	return strings.Join(ss, "; ")
}

func (m *machine) deadlock(th *thread) {
	// nobody can run. The main thread (harness) has not returned: that is a deadlock.
	m.violationNow("no-deadlock", "no thread can make progress: "+m.describeBlocked())
	m.endPath("deadlock")
}

func (m *machine) deadlockFromExit(t *thread) {
	func() {
		defer func() {
			if r := recover(); r != nil {
				if ee, ok := r.(engineError); ok {
					m.status, m.errMsg = "error", ee.msg
				}
			}
		}()
		m.violationNow("no-deadlock", "no thread can make progress: "+m.describeBlocked())
	}()
	if m.status == "" {
		m.status = "deadlock"
	}
	m.finish(t)
}

func (m *machine) liveOthers(th *thread) int {
	n := 0
	for _, t := range m.threads {
		if t != th && !t.done {
			n++
		}
	}
	return n
}

func (m *machine) othersEnabled(th *thread) bool {
	for _, t := range m.threads {
		if t != th && m.enabled(t) {
			return true
		}
	}
	return false
}

// ---------- channels ----------

type sendWaiter struct {
	v     value
	taken bool
	th    *thread
	vc    vclock
}

type chanObj struct {
	id      int
	cap     int
	buf     []value
	bufVC   []vclock
	closed  bool
	closeVC vclock
	sendq   []*sendWaiter
	recvq   []*recvWaiter // threads blocked in a receive (plain or select) on this channel
}

// recvWaiter lets a select with a send case on an unbuffered channel complete a rendezvous with a blocked receiver.
type recvWaiter struct {
	th      *thread
	ch      *chanObj
	caseIdx int
	done    bool
	v       value
	vc      vclock
}

func (c *chanObj) addRecvWaiter(w *recvWaiter) { c.recvq = append(c.recvq, w) }

func (c *chanObj) dropRecvWaiter(w *recvWaiter) {
	for i, x := range c.recvq {
		if x == w {
			c.recvq = append(c.recvq[:i:i], c.recvq[i+1:]...)
			return
		}
	}
}

func (c *chanObj) waitingReceiver() *recvWaiter {
	for _, w := range c.recvq {
		if !w.done {
			return w
		}
	}
	return nil
}

func (m *machine) newChan(n int) *chanObj {
	m.chanCount++
	return &chanObj{id: m.chanCount, cap: n}
}

func (c *chanObj) pendingSender() *sendWaiter {
	for _, w := range c.sendq {
		if !w.taken {
			return w
		}
	}
	return nil
}

func (c *chanObj) canRecv() bool {
	return c != nil && (len(c.buf) > 0 || c.closed || c.pendingSender() != nil)
}

func (c *chanObj) canSendBuffered() bool {
	return c != nil && (c.closed || len(c.buf) < c.cap)
}

func (m *machine) chanSend(th *thread, c *chanObj, v value) {
	if c == nil {
		m.sched(th, "send on nil channel", func() bool { return false })
	}
	v = copyVal(v)
	if c.cap > 0 {
		m.sched(th, fmt.Sprintf("send on chan#%d (cap %d, len %d)", c.id, c.cap, len(c.buf)), c.canSendBuffered)
		if c.closed {
			panic(targetPanic{iface{t: m.eng.runtimeErrorString, v: "send on closed channel"}})
		}
		c.buf = append(c.buf, v)
		if m.race != nil {
			c.bufVC = append(c.bufVC, m.race.release(th))
		}
		return
	}
	w := &sendWaiter{v: v, th: th}
	if m.race != nil {
		w.vc = m.race.release(th)
	}
	c.sendq = append(c.sendq, w)
	m.sched(th, fmt.Sprintf("send on unbuffered chan#%d", c.id), func() bool { return w.taken || c.closed })
	if !w.taken {
		panic(targetPanic{iface{t: m.eng.runtimeErrorString, v: "send on closed channel"}})
	}
}

func (m *machine) recvNow(th *thread, c *chanObj, elemT types.Type) (value, bool) {
	if len(c.buf) > 0 {
		v := c.buf[0]
		c.buf = c.buf[1:]
		if m.race != nil && len(c.bufVC) > 0 {
			m.race.acquire(th, c.bufVC[0])
			c.bufVC = c.bufVC[1:]
		}
		return v, true
	}
	if w := c.pendingSender(); w != nil {
		w.taken = true
		// remove from queue
		for i, x := range c.sendq {
			if x == w {
				c.sendq = append(c.sendq[:i:i], c.sendq[i+1:]...)
				break
			}
		}
		if m.race != nil {
			m.race.acquire(th, w.vc)
		}
		return w.v, true
	}
	if c.closed {
		if m.race != nil {
			m.race.acquire(th, c.closeVC)
		}
		return zero(elemT), false
	}
	panic(engineError{"recvNow on channel that is not ready"})
}

func (m *machine) chanRecv(th *thread, c *chanObj, commaOk bool, resT types.Type) value {
	if c == nil {
		m.sched(th, "receive on nil channel", func() bool { return false })
	}
	w := &recvWaiter{th: th, ch: c}
	c.addRecvWaiter(w)
	m.sched(th, fmt.Sprintf("receive on chan#%d", c.id), func() bool { return w.done || c.canRecv() })
	c.dropRecvWaiter(w)
	var elemT types.Type
	if commaOk {
		elemT = resT.(*types.Tuple).At(0).Type()
	} else {
		elemT = resT
	}
	var v value
	ok := true
	if w.done {
		v = w.v
		if m.race != nil {
			m.race.acquire(th, w.vc)
		}
	} else {
		v, ok = m.recvNow(th, c, elemT)
	}
	if commaOk {
		return tuple{v, mkBool(ok)}
	}
	return v
}

func (m *machine) chanClose(th *thread, c *chanObj) {
	if c == nil {
		panic(targetPanic{iface{t: m.eng.runtimeErrorString, v: "close of nil channel"}})
	}
	if c.closed {
		panic(targetPanic{iface{t: m.eng.runtimeErrorString, v: "close of closed channel"}})
	}
	c.closed = true
	if m.race != nil {
		c.closeVC = m.race.release(th)
	}
}

func (m *machine) doSelect(fr *frame, instr *ssa.Select) value {
	th := fr.th
	type st struct {
		ch   *chanObj
		send bool
		v    value
	}
	states := make([]st, len(instr.States))
	for i, s := range instr.States {
		states[i].ch = fr.get(s.Chan).(*chanObj)
		if s.Dir == types.SendOnly {
			states[i].send = true
			states[i].v = fr.get(s.Send)
		}
	}
	readyIdx := func() []int {
		var r []int
		for i, s := range states {
			if s.ch == nil {
				continue
			}
			if s.send {
				if s.ch.cap > 0 {
					if s.ch.canSendBuffered() {
						r = append(r, i)
					}
				} else if s.ch.closed || s.ch.waitingReceiver() != nil {
					r = append(r, i) // rendezvous with a blocked receiver (or panic on a closed channel)
				}
			} else if s.ch.canRecv() {
				r = append(r, i)
			}
		}
		return r
	}
	var waiters []*recvWaiter
	delivered := func() *recvWaiter {
		for _, w := range waiters {
			if w.done {
				return w
			}
		}
		return nil
	}
	if instr.Blocking {
		var desc []string
		for i, s := range states {
			if s.ch != nil {
				desc = append(desc, fmt.Sprintf("chan#%d", s.ch.id))
				if !s.send {
					w := &recvWaiter{th: th, ch: s.ch, caseIdx: i}
					s.ch.addRecvWaiter(w)
					waiters = append(waiters, w)
				}
			}
		}
		m.sched(th, "select on "+strings.Join(desc, ","), func() bool { return delivered() != nil || len(readyIdx()) > 0 })
		for _, w := range waiters {
			w.ch.dropRecvWaiter(w)
		}
	} else {
		m.sched(th, "select (non-blocking)", func() bool { return true })
	}
	chosen := -1
	var got *recvWaiter
	if got = delivered(); got != nil {
		chosen = got.caseIdx
	} else if ready := readyIdx(); len(ready) > 0 {
		opts := append([]int{}, ready...)
		if !instr.Blocking {
			for _, i := range ready {
				if states[i].send && m.mayBeFull[states[i].ch] {
					opts = append(opts, -1)
					break
				}
			}
		}
		chosen = opts[m.choose(len(opts), 'c')]
	}
	r := tuple{mkBV(64, uint64(int64(chosen))), falseT}
	for i, s := range instr.States {
		if s.Dir == types.RecvOnly {
			elemT := s.Chan.Type().Underlying().(*types.Chan).Elem()
			if i == chosen {
				if got != nil {
					r = append(r, got.v)
					r[1] = trueT
					if m.race != nil {
						m.race.acquire(th, got.vc)
					}
				} else {
					v, ok := m.recvNow(th, states[i].ch, elemT)
					r = append(r, v)
					r[1] = mkBool(ok)
				}
			} else {
				r = append(r, zero(elemT))
			}
		}
	}
	if chosen >= 0 && states[chosen].send {
		c := states[chosen].ch
		if c.closed {
			panic(targetPanic{iface{t: m.eng.runtimeErrorString, v: "send on closed channel"}})
		}
		if c.cap > 0 {
			c.buf = append(c.buf, copyVal(states[chosen].v))
			if m.race != nil {
				c.bufVC = append(c.bufVC, m.race.release(th))
			}
		} else {
			// which of several blocked receivers takes the value is a scheduling choice: a receiver that has
			// arrived at its receive need not have parked yet in a real run, so no queue order can be relied on
			var cands []*recvWaiter
			for _, x := range c.recvq {
				if !x.done {
					cands = append(cands, x)
				}
			}
			w := cands[0]
			if len(cands) > 1 {
				w = cands[m.choose(len(cands), 'c')]
			}
			w.done = true
			w.v = copyVal(states[chosen].v)
			if m.race != nil {
				w.vc = m.race.release(th)
			}
		}
	}
	return r
}

// onAccess is the data-race monitor hook (C19).
func (m *machine) onAccess(th *thread, loc interface{}, write bool) {
	if m.race != nil {
		// the harness's own ghost bookkeeping (histories, ledgers) is not part of the program under test
		if th.fn != nil && m.eng.isHarnessFn(th.fn) {
			return
		}
		m.race.access(th, loc, write, false)
	}
}

func sortedKeys(mp map[string]bool) []string {
	var ks []string
	for k := range mp {
		ks = append(ks, k)
	}
	sort.Strings(ks)
	return ks
}
