package main

// One long-lived SMT solver process per worker, spoken to in SMT-LIB2 text.

import (
	"bufio"
	"fmt"
	"io"
	"math"
	"os"
	"os/exec"
	"strconv"
	"strings"
	"time"
)

type SolverStats struct {
	Sat, Unsat, Unknown, Errors int
	Seconds                     float64
}

type Solver struct {
	bin     string
	args    []string
	cmd     *exec.Cmd
	in      io.WriteCloser
	out     *bufio.Reader
	em      *emitter
	stats   SolverStats
	timeout int // ms
	seed    int
	log     io.Writer // optional transcript
	pcN     int
}

func NewSolver(bin string, timeoutMs int, seed int) *Solver {
	s := &Solver{bin: bin, timeout: timeoutMs, seed: seed}
	switch {
	case strings.Contains(bin, "cvc5"):
		s.args = []string{"--incremental", "--produce-models", "--lang=smt2", fmt.Sprintf("--tlimit-per=%d", timeoutMs)}
	default:
		s.args = []string{"-in"}
	}
	s.start()
	return s
}

func (s *Solver) start() {
	s.cmd = exec.Command(s.bin, s.args...)
	var err error
	s.in, err = s.cmd.StdinPipe()
	if err != nil {
		panic(err)
	}
	o, err := s.cmd.StdoutPipe()
	if err != nil {
		panic(err)
	}
	s.cmd.Stderr = s.cmd.Stdout
	s.out = bufio.NewReaderSize(o, 1<<20)
	if err := s.cmd.Start(); err != nil {
		panic(fmt.Sprintf("cannot start solver %s: %v", s.bin, err))
	}
	s.Reset()
}

func (s *Solver) Close() {
	if s.cmd != nil {
		s.in.Close()
		s.cmd.Process.Kill()
		s.cmd.Wait()
		s.cmd = nil
	}
}

func (s *Solver) send(str string) {
	if s.log != nil {
		io.WriteString(s.log, str)
	}
	if _, err := io.WriteString(s.in, str); err != nil {
		panic(fmt.Sprintf("solver write failed: %v", err))
	}
}

func (s *Solver) isZ3() bool { return !strings.Contains(s.bin, "cvc5") }

// Reset starts a new path: empty assertion stack, no declarations.
func (s *Solver) Reset() {
	s.em = newEmitter()
	s.pcN = 0
	if s.isZ3() {
		s.send("(reset)\n(set-option :produce-models true)\n")
		s.send(fmt.Sprintf("(set-option :timeout %d)\n", s.timeout))
		if s.seed != 0 {
			s.send(fmt.Sprintf("(set-option :smt.random_seed %d)\n(set-option :sat.random_seed %d)\n", s.seed, s.seed))
		}
	} else {
		s.send("(reset)\n(set-logic ALL)\n")
	}
}

func (s *Solver) flushDefs() {
	if s.em.out.Len() > 0 {
		s.send(s.em.out.String())
		s.em.out.Reset()
	}
}

// Assert adds t to the permanent assertion set of this path.
func (s *Solver) Assert(t *Term) {
	if t.IsTrue() {
		return
	}
	r := s.em.ref(t)
	s.flushDefs()
	s.send("(assert " + r + ")\n")
	s.pcN++
}

func (s *Solver) readLine() string {
	for {
		line, err := s.out.ReadString('\n')
		if err != nil {
			panic(fmt.Sprintf("solver died: %v (%q)", err, line))
		}
		line = strings.TrimSpace(line)
		if line != "" {
			return line
		}
	}
}

// readSexp reads a balanced s-expression (possibly multi-line).
func (s *Solver) readSexp() string {
	var sb strings.Builder
	depth := 0
	started := false
	inBar := false
	inStr := false
	for {
		c, err := s.out.ReadByte()
		if err != nil {
			panic("solver died while reading model")
		}
		sb.WriteByte(c)
		switch {
		case inBar:
			if c == '|' {
				inBar = false
			}
		case inStr:
			if c == '"' {
				inStr = false
			}
		case c == '|':
			inBar = true
		case c == '"':
			inStr = true
		case c == '(':
			depth++
			started = true
		case c == ')':
			depth--
		}
		if started && depth == 0 {
			return sb.String()
		}
	}
}

type ModelVal struct {
	Bits uint64  `json:"bits"`
	F    float64 `json:"f,omitempty"`
	Sort string  `json:"sort"`
}

// Check decides sat(pc ∧ extras). If want is non-empty and the result is sat the values of those terms are returned.
func (s *Solver) Check(extras []*Term, want []*Term) (string, []ModelVal) {
	refs := make([]string, len(extras))
	for i, e := range extras {
		refs[i] = s.em.ref(e)
	}
	wrefs := make([]string, len(want))
	for i, w := range want {
		wrefs[i] = s.em.ref(w)
	}
	s.flushDefs()
	t0 := time.Now()
	var sb strings.Builder
	sb.WriteString("(push 1)\n")
	for _, r := range refs {
		sb.WriteString("(assert " + r + ")\n")
	}
	sb.WriteString("(check-sat)\n")
	s.send(sb.String())
	res := ""
	errored := false
	for {
		line := s.readLine()
		if strings.HasPrefix(line, "(error") {
			errored = true
			s.stats.Errors++
			if s.log != nil {
				fmt.Fprintln(s.log, "; "+line)
			}
			continue
		}
		if line == "sat" || line == "unsat" || line == "unknown" || line == "timeout" {
			res = line
			break
		}
		// ignore other chatter
	}
	if res == "timeout" {
		res = "unknown"
	}
	if errored {
		res = "unknown"
	}
	var vals []ModelVal
	if res == "sat" && len(wrefs) > 0 {
		vals = make([]ModelVal, len(wrefs))
		// chunk to keep lines modest
		const chunk = 200
		for i := 0; i < len(wrefs); i += chunk {
			j := i + chunk
			if j > len(wrefs) {
				j = len(wrefs)
			}
			s.send("(get-value (" + strings.Join(wrefs[i:j], " ") + "))\n")
			txt := s.readSexp()
			if strings.HasPrefix(strings.TrimSpace(txt), "(error") {
				s.stats.Errors++
				res = "unknown"
				break
			}
			pairs := parseValuePairs(txt)
			if len(pairs) != j-i {
				panic(fmt.Sprintf("get-value: expected %d pairs, got %d: %s", j-i, len(pairs), txt))
			}
			for k, p := range pairs {
				vals[i+k] = parseValue(p, want[i+k].sort)
			}
		}
	}
	s.send("(pop 1)\n")
	if el := time.Since(t0).Seconds(); el > 3 && os.Getenv("GOSMT_SLOWQ") != "" {
		var ds []string
		for _, e := range extras {
			ds = append(ds, e.String())
		}
		fmt.Fprintf(os.Stderr, "SLOW QUERY %.1fs res=%s pc=%d extras=%s\n", el, res, s.pcN, strings.Join(ds, " ; "))
	}
	s.stats.Seconds += time.Since(t0).Seconds()
	switch res {
	case "sat":
		s.stats.Sat++
	case "unsat":
		s.stats.Unsat++
	default:
		s.stats.Unknown++
	}
	return res, vals
}

// --- tiny s-expression parser for get-value output ---

type sexp struct {
	atom string
	list []*sexp
}

func parseSexp(s string) *sexp {
	toks := tokenize(s)
	pos := 0
	var rec func() *sexp
	rec = func() *sexp {
		if pos >= len(toks) {
			return &sexp{}
		}
		t := toks[pos]
		pos++
		if t == "(" {
			n := &sexp{list: []*sexp{}}
			for pos < len(toks) && toks[pos] != ")" {
				n.list = append(n.list, rec())
			}
			pos++
			return n
		}
		return &sexp{atom: t}
	}
	return rec()
}

func tokenize(s string) []string {
	var toks []string
	i := 0
	for i < len(s) {
		c := s[i]
		switch {
		case c == '(' || c == ')':
			toks = append(toks, string(c))
			i++
		case c == ' ' || c == '\n' || c == '\t' || c == '\r':
			i++
		case c == '|':
			j := i + 1
			for j < len(s) && s[j] != '|' {
				j++
			}
			toks = append(toks, s[i:j+1])
			i = j + 1
		default:
			j := i
			for j < len(s) && !strings.ContainsRune("() \n\t\r", rune(s[j])) {
				j++
			}
			toks = append(toks, s[i:j])
			i = j
		}
	}
	return toks
}

func parseValuePairs(txt string) []*sexp {
	root := parseSexp(txt)
	var out []*sexp
	for _, p := range root.list {
		if len(p.list) == 2 {
			out = append(out, p.list[1])
		}
	}
	return out
}

func parseBVAtom(a string) (uint64, int, bool) {
	if strings.HasPrefix(a, "#x") {
		v, err := strconv.ParseUint(a[2:], 16, 64)
		return v, 4 * (len(a) - 2), err == nil
	}
	if strings.HasPrefix(a, "#b") {
		v, err := strconv.ParseUint(a[2:], 2, 64)
		return v, len(a) - 2, err == nil
	}
	return 0, 0, false
}

func parseValue(e *sexp, srt Sort) ModelVal {
	mv := ModelVal{Sort: srt.SMT()}
	switch srt.K {
	case SBool:
		if e.atom == "true" {
			mv.Bits = 1
		}
	case SBV:
		if e.atom != "" {
			v, _, _ := parseBVAtom(e.atom)
			mv.Bits = v
		} else if len(e.list) == 3 && e.list[0].atom == "_" && strings.HasPrefix(e.list[1].atom, "bv") {
			v, _ := strconv.ParseUint(e.list[1].atom[2:], 10, 64)
			mv.Bits = v
		}
	case SFP:
		// (fp #b0 #b... #b...) | (_ +zero 8 24) | (_ NaN 8 24) ...
		eb, sb := 11, 52
		if srt.W == 32 {
			eb, sb = 8, 23
		}
		if len(e.list) == 4 && e.list[0].atom == "fp" {
			sg, _, _ := parseBVAtom(e.list[1].atom)
			ex, _, _ := parseBVAtom(e.list[2].atom)
			mn, _, _ := parseBVAtom(e.list[3].atom)
			bitsv := sg<<uint(eb+sb) | ex<<uint(sb) | mn
			if srt.W == 32 {
				mv.F = float64(math.Float32frombits(uint32(bitsv)))
			} else {
				mv.F = math.Float64frombits(bitsv)
			}
			mv.Bits = bitsv
		} else if len(e.list) >= 2 && e.list[0].atom == "_" {
			switch e.list[1].atom {
			case "+zero":
				mv.F = 0
			case "-zero":
				mv.F = math.Copysign(0, -1)
			case "+oo":
				mv.F = math.Inf(1)
			case "-oo":
				mv.F = math.Inf(-1)
			default:
				mv.F = math.NaN()
			}
			if srt.W == 32 {
				mv.Bits = uint64(math.Float32bits(float32(mv.F)))
			} else {
				mv.Bits = math.Float64bits(mv.F)
			}
		}
	}
	return mv
}
