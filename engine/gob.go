package main

// ghostBytes stands for a byte slice whose contents are a sequence of ghost values (gob stub, C11/C12).
type ghostBytes struct {
	items []value
	sumT  *Term
	id    int
}

func (g *ghostBytes) sum(m *machine) *Term {
	if g.sumT != nil {
		return g.sumT
	}
	return mkBV(64, uint64(g.id))
}
