package main

// Stub of encoding/gob + bytes.Buffer/Reader as a value channel (C11/C12, DESIGN.md §2.5):
// Encode(v) appends a snapshot of the value to a ghost stream, Decode delivers the next element or io.EOF.
// Byte layout, type descriptors and sizes are outside the model; Buffer.Len() is nondeterministic so that
// block splitting happens at arbitrary points.

import (
	"fmt"
	"go/types"
	"strings"

	"golang.org/x/tools/go/ssa"
)

// ghostBytes stands for a []byte whose contents are a sequence of encoded values.
type ghostBytes struct {
	items []value
	id    int
	sumT  *Term
}

func (g *ghostBytes) sum(m *machine) *Term {
	if g.sumT == nil {
		g.sumT = m.uf("xxh3_bytes", BV(64), mkBV(64, uint64(g.id)))
	}
	return g.sumT
}

type ghostBuf struct { // *bytes.Buffer
	items []value
}

type ghostStream struct { // the harness's io.Writer / io.Reader
	blocks []value // snapshots (structure) of DataBlock values
	pos    int
}

type ghostEnc struct {
	buf    *ghostBuf
	stream *ghostStream
}

type ghostDec struct {
	stream *ghostStream
	data   *ghostBytes
	pos    int
}

type ghostReader struct {
	data *ghostBytes
}

func box(o interface{}) *value {
	p := new(value)
	*p = o
	return p
}

func unbox(v value) interface{} {
	switch v := v.(type) {
	case *value:
		if v == nil {
			return nil
		}
		return *v
	case iface:
		return unbox(v.v)
	}
	return v
}

func (m *machine) ioEOF() value {
	if p := m.eng.prog.ImportedPackage("io"); p != nil {
		if g := p.Var("EOF"); g != nil {
			return *m.global(g)
		}
	}
	panic(engineError{"io.EOF not available"})
}

// snapshot deep-copies an encodable value (through pointers) so that later mutation does not affect the stream.
func snapshot(v value) value {
	switch v := v.(type) {
	case iface:
		return snapshot(v.v)
	case *value:
		if v == nil {
			return nil
		}
		if _, ok := (*v).(structure); ok {
			return snapshot(*v)
		}
		return v
	case structure:
		out := make(structure, len(v))
		for i := range v {
			switch f := v[i].(type) {
			case structure, array:
				out[i] = snapshot(f)
			default:
				out[i] = f
			}
		}
		return out
	case array:
		out := make(array, len(v))
		for i := range v {
			out[i] = snapshot(v[i])
		}
		return out
	}
	return v
}

// exportedCopy copies the exported fields of src (a snapshot) into the struct behind dst, as gob does.
func exportedCopy(T types.Type, dst *value, src value) bool {
	st, ok := T.Underlying().(*types.Struct)
	if !ok {
		if _, isS := src.(structure); isS {
			return false
		}
		*dst = src
		return true
	}
	d, ok1 := (*dst).(structure)
	s, ok2 := src.(structure)
	if !ok1 || !ok2 || len(d) != len(s) {
		return false // gob reports a type mismatch when the wire type does not fit the target
	}
	for i := 0; i < st.NumFields(); i++ {
		if st.Field(i).Exported() && fmt.Sprintf("%T", d[i]) != fmt.Sprintf("%T", s[i]) {
			if !(isNil(d[i]) || isNil(s[i])) {
				return false
			}
		}
	}
	for i := 0; i < st.NumFields(); i++ {
		if st.Field(i).Exported() {
			d[i] = copyVal(s[i])
		}
	}
	return true
}

func registerGob() {
	intrinsics["bytes.NewBuffer"] = func(fr *frame, a []value) value {
		return box(&ghostBuf{})
	}
	intrinsics["(*bytes.Buffer).Bytes"] = func(fr *frame, a []value) value {
		m := fr.m()
		b := unbox(a[0]).(*ghostBuf)
		m.ghostIDs++
		return &ghostBytes{items: append([]value{}, b.items...), id: m.ghostIDs}
	}
	intrinsics["(*bytes.Buffer).Len"] = func(fr *frame, a []value) value {
		m := fr.m()
		b := unbox(a[0]).(*ghostBuf)
		if len(b.items) == 0 {
			return mkBV(64, 0)
		}
		if m.splitBlocks && m.choose(2, 'c') == 1 {
			return mkBV(64, 1<<30) // "the buffer has reached the block size"
		}
		return mkBV(64, 1)
	}
	intrinsics["(*bytes.Buffer).Reset"] = func(fr *frame, a []value) value {
		unbox(a[0]).(*ghostBuf).items = nil
		return nil
	}
	intrinsics["bytes.NewReader"] = func(fr *frame, a []value) value {
		gb, _ := a[0].(*ghostBytes)
		if gb == nil {
			gb = &ghostBytes{}
		}
		return box(&ghostReader{data: gb})
	}
	intrinsics["encoding/gob.NewEncoder"] = func(fr *frame, a []value) value {
		switch o := unbox(a[0]).(type) {
		case *ghostBuf:
			return box(&ghostEnc{buf: o})
		case *ghostStream:
			return box(&ghostEnc{stream: o})
		}
		panic(engineError{fmt.Sprintf("gob stub: NewEncoder on %T", unbox(a[0]))})
	}
	intrinsics["(*encoding/gob.Encoder).Encode"] = func(fr *frame, a []value) value {
		e := unbox(a[0]).(*ghostEnc)
		snap := snapshot(a[1])
		if e.buf != nil {
			e.buf.items = append(e.buf.items, snap)
		} else {
			e.stream.blocks = append(e.stream.blocks, snap)
		}
		return iface{}
	}
	intrinsics["encoding/gob.NewDecoder"] = func(fr *frame, a []value) value {
		switch o := unbox(a[0]).(type) {
		case *ghostStream:
			return box(&ghostDec{stream: o})
		case *ghostReader:
			return box(&ghostDec{data: o.data})
		}
		panic(engineError{fmt.Sprintf("gob stub: NewDecoder on %T", unbox(a[0]))})
	}
	intrinsics["(*encoding/gob.Decoder).Decode"] = func(fr *frame, a []value) value {
		m := fr.m()
		d := unbox(a[0]).(*ghostDec)
		tgt := a[1].(iface)
		var next value
		if d.stream != nil {
			if d.stream.pos >= len(d.stream.blocks) {
				return m.ioEOF()
			}
			next = d.stream.blocks[d.stream.pos]
			d.stream.pos++
		} else {
			if d.pos >= len(d.data.items) {
				return m.ioEOF()
			}
			next = d.data.items[d.pos]
			d.pos++
		}
		if _, bad := next.(ghostGarbage); bad {
			return errIface(m, "gob: decoding error (damaged data)")
		}
		p, ok := tgt.v.(*value)
		if !ok || p == nil {
			panic(engineError{"gob stub: Decode target is not a pointer"})
		}
		if !exportedCopy(derefT(tgt.t), p, next) {
			return errIface(m, "gob: type mismatch")
		}
		return iface{}
	}
	// harness API for ghost streams
	vfAPI["vfGhostStream"] = func(fr *frame, a []value) value {
		m := fr.m()
		return iface{t: m.eng.ctxType, v: box(&ghostStream{})}
	}
	vfAPI["vfStreamReader"] = func(fr *frame, a []value) value {
		st := unbox(a[0]).(*ghostStream)
		st.pos = 0
		return iface{t: fr.m().eng.ctxType, v: box(st)}
	}
	vfAPI["vfStreamLen"] = func(fr *frame, a []value) value {
		return mkBV(64, uint64(len(unbox(a[0]).(*ghostStream).blocks)))
	}
	vfAPI["vfSplitBlocks"] = func(fr *frame, a []value) value {
		fr.m().splitBlocks = bvOf(a[0]).IsTrue()
		return nil
	}
	// vfStreamOp(stream, op, i, j): block-level faults
	vfAPI["vfStreamOp"] = func(fr *frame, a []value) value {
		m := fr.m()
		st := unbox(a[0]).(*ghostStream)
		op := int(m.concretize(bvOf(a[1]), "streamop"))
		i := int(m.concretize(bvOf(a[2]), "streamop"))
		j := int(m.concretize(bvOf(a[3]), "streamop"))
		n := len(st.blocks)
		if i < 0 || i >= n {
			return falseT
		}
		fieldOf := func(b value, name string) *value {
			s := b.(structure)
			return &s[m.eng.dataBlockField(name)]
		}
		switch op {
		case 0: // truncate: keep the first i blocks
			st.blocks = st.blocks[:i]
		case 1: // drop block i
			st.blocks = append(append([]value{}, st.blocks[:i]...), st.blocks[i+1:]...)
		case 2: // duplicate block i
			nb := append(append([]value{}, st.blocks[:i+1]...), snapshot(st.blocks[i]))
			st.blocks = append(nb, st.blocks[i+1:]...)
		case 3: // swap blocks i and j
			if j < 0 || j >= n {
				return falseT
			}
			st.blocks[i], st.blocks[j] = st.blocks[j], st.blocks[i]
		case 4: // retag block i
			*fieldOf(st.blocks[i], "Type") = mkBV(8, uint64(j))
		case 5: // damage the checksum field of block i
			ncs := m.fresh("damagedChecksum", BV(64))
			// the damaged field does not happen to be the checksum of a payload that an earlier fault has
			// damaged (same 2^-64 event as the no-collision assumption of the payload faults)
			if gb, _ := (*fieldOf(st.blocks[i], "Data")).(*ghostBytes); gb != nil {
				if ocs, ok := (*fieldOf(st.blocks[i], "CheckSum")).(*Term); ok {
					if eq := mkEq(gb.sum(m), ocs); !(eq.isC && eq.c == 1) {
						noCollision(m, gb, ncs)
					}
				}
			}
			*fieldOf(st.blocks[i], "CheckSum") = ncs
		case 6: // replace the payload of block i by the payload of block j (checksum field left alone)
			if j < 0 || j >= n {
				return falseT
			}
			*fieldOf(st.blocks[i], "Data") = *fieldOf(st.blocks[j], "Data")
			// a foreign payload does not happen to have the checksum stored in this block
			if gb, _ := (*fieldOf(st.blocks[i], "Data")).(*ghostBytes); gb != nil && i != j {
				if ocs, ok := (*fieldOf(st.blocks[i], "CheckSum")).(*Term); ok {
					if eq := mkEq(gb.sum(m), ocs); !(eq.isC && eq.c == 1) {
						noCollision(m, gb, ocs)
					}
				}
			}
		case 7: // damage inside the payload of block i: items from j on are garbage (and the bytes differ)
			gb, _ := (*fieldOf(st.blocks[i], "Data")).(*ghostBytes)
			if gb == nil || j < 0 || j > len(gb.items) {
				return falseT
			}
			m.ghostIDs++
			ng := &ghostBytes{items: append(append([]value{}, gb.items[:j]...), ghostGarbage{}), id: m.ghostIDs}
			*fieldOf(st.blocks[i], "Data") = ng
			noCollision(m, ng, *fieldOf(st.blocks[i], "CheckSum"))
		case 8: // byte damage inside the payload of block i that still decodes: item j carries a different value; the checksum field is left alone
			gb, _ := (*fieldOf(st.blocks[i], "Data")).(*ghostBytes)
			if gb == nil || j < 0 || j >= len(gb.items) {
				return falseT
			}
			it, ok := gb.items[j].(structure)
			if !ok || len(it) < 2 {
				return falseT
			}
			orig, ok := it[1].(*Term)
			if !ok || orig.sort.K != SBV {
				return falseT
			}
			nv := m.fresh("damagedValue", orig.sort)
			if !nv.isC {
				m.addPC(mkNot(mkEq(nv, orig)))
			}
			ni := append(structure{}, it...)
			ni[1] = nv
			items := append([]value{}, gb.items...)
			items[j] = ni
			m.ghostIDs++
			ng := &ghostBytes{items: items, id: m.ghostIDs}
			*fieldOf(st.blocks[i], "Data") = ng
			noCollision(m, ng, *fieldOf(st.blocks[i], "CheckSum"))
		default:
			return falseT
		}
		return trueT
	}
}

type ghostGarbage struct{}

// noCollision states the assumption that damaged bytes do not hash to the checksum stored for the intact payload.
func noCollision(m *machine, ng *ghostBytes, stored value) {
	if st, ok := stored.(*Term); ok {
		c := mkNot(mkEq(ng.sum(m), st))
		if !c.isC {
			m.addPC(c)
		}
	}
}

func (e *engine) dataBlockField(name string) int {
	e.dbOnce.Do(func() {
		e.dbFields = map[string]int{}
		pkg := e.pkgs["internal"]
		for _, mem := range pkg.Members {
			t, ok := mem.(*ssa.Type)
			if !ok || !strings.HasPrefix(t.Name(), "DataBlock") {
				continue
			}
			if st, ok := t.Type().Underlying().(*types.Struct); ok {
				for i := 0; i < st.NumFields(); i++ {
					e.dbFields[st.Field(i).Name()] = i
				}
			}
		}
	})
	i, ok := e.dbFields[name]
	if !ok {
		panic(engineError{"DataBlock has no field " + name})
	}
	return i
}
