package main

import (
	"fmt"
	"go/token"
	"go/types"

	"golang.org/x/tools/go/ssa"
)

func (fr *frame) unop(instr *ssa.UnOp, x value) value {
	m := fr.m()
	switch instr.Op {
	case token.ARROW:
		return m.chanRecv(fr.th, x.(*chanObj), instr.CommaOk, instr.Type())
	case token.MUL:
		return fr.load(derefT(instr.X.Type()), x)
	case token.SUB:
		t := x.(*Term)
		if t.sort.K == SFP {
			return mkFPNeg(t)
		}
		return mkBvNeg(t)
	case token.NOT:
		return mkNot(x.(*Term))
	case token.XOR:
		return mkBvNot(x.(*Term))
	}
	panic(engineError{fmt.Sprintf("invalid unary op %s", instr.Op)})
}

func (fr *frame) binop(op token.Token, t types.Type, x, y value) value {
	m := fr.m()
	switch op {
	case token.EQL:
		return equals(x, y)
	case token.NEQ:
		return mkNot(equals(x, y))
	}
	if xs, ok := x.(string); ok {
		ys := y.(string)
		switch op {
		case token.ADD:
			return xs + ys
		case token.LSS:
			return mkBool(xs < ys)
		case token.LEQ:
			return mkBool(xs <= ys)
		case token.GTR:
			return mkBool(xs > ys)
		case token.GEQ:
			return mkBool(xs >= ys)
		}
	}
	a, ok1 := x.(*Term)
	b, ok2 := y.(*Term)
	if !ok1 || !ok2 {
		panic(engineError{fmt.Sprintf("binop %s on %T, %T", op, x, y)})
	}
	if a.sort.K == SBool {
		switch op {
		case token.AND, token.LAND:
			return mkAnd(a, b)
		case token.OR, token.LOR:
			return mkOr(a, b)
		}
	}
	if a.sort.K == SFP {
		switch op {
		case token.ADD:
			return mkFPBin("fp.add", a, b)
		case token.SUB:
			return mkFPBin("fp.sub", a, b)
		case token.MUL:
			return mkFPBin("fp.mul", a, b)
		case token.QUO:
			return mkFPBin("fp.div", a, b)
		case token.LSS:
			return mkFPCmp("fp.lt", a, b)
		case token.LEQ:
			return mkFPCmp("fp.leq", a, b)
		case token.GTR:
			return mkFPCmp("fp.gt", a, b)
		case token.GEQ:
			return mkFPCmp("fp.geq", a, b)
		}
		panic(engineError{fmt.Sprintf("float binop %s", op)})
	}
	signed := isSigned(t)
	w := a.sort.W
	switch op {
	case token.ADD:
		return mkBin("bvadd", a, b)
	case token.SUB:
		return mkBin("bvsub", a, b)
	case token.MUL:
		return mkBin("bvmul", a, b)
	case token.QUO, token.REM:
		nz := mkNot(mkEq(b, mkBV(w, 0)))
		if !m.branch(nz) {
			panic(m.runtimeError("integer divide by zero"))
		}
		if op == token.QUO {
			if signed {
				return mkBin("bvsdiv", a, b)
			}
			return mkBin("bvudiv", a, b)
		}
		if signed {
			return mkBin("bvsrem", a, b)
		}
		return mkBin("bvurem", a, b)
	case token.AND:
		return mkBin("bvand", a, b)
	case token.OR:
		return mkBin("bvor", a, b)
	case token.XOR:
		return mkBin("bvxor", a, b)
	case token.AND_NOT:
		return mkBin("bvand", a, mkBvNot(b))
	case token.SHL, token.SHR:
		sop := "bvshl"
		if op == token.SHR {
			if signed {
				sop = "bvashr"
			} else {
				sop = "bvlshr"
			}
		}
		wb := b.sort.W
		switch {
		case wb == w:
			return mkBin(sop, a, b)
		case wb < w:
			return mkBin(sop, a, mkZext(b, w))
		default:
			// shift count wider than operand: counts >= w behave like w
			big := mkCmp("bvule", mkBV(wb, uint64(w)), b)
			cnt := mkIte(big, mkBV(w, uint64(w)), mkExtract(w-1, 0, b))
			return mkBin(sop, a, cnt)
		}
	case token.LSS:
		if signed {
			return mkCmp("bvslt", a, b)
		}
		return mkCmp("bvult", a, b)
	case token.LEQ:
		if signed {
			return mkCmp("bvsle", a, b)
		}
		return mkCmp("bvule", a, b)
	case token.GTR:
		if signed {
			return mkCmp("bvslt", b, a)
		}
		return mkCmp("bvult", b, a)
	case token.GEQ:
		if signed {
			return mkCmp("bvsle", b, a)
		}
		return mkCmp("bvule", b, a)
	}
	panic(engineError{fmt.Sprintf("invalid binary op %s", op)})
}

func (fr *frame) conv(tdst, tsrc types.Type, x value) value {
	m := fr.m()
	ud := tdst.Underlying()
	us := tsrc.Underlying()
	// pointer <-> unsafe.Pointer
	if _, ok := ud.(*types.Pointer); ok {
		return x
	}
	if b, ok := ud.(*types.Basic); ok && b.Kind() == types.UnsafePointer {
		if _, ok := x.(*Term); ok {
			unsupported("uintptr -> unsafe.Pointer conversion")
		}
		return x
	}
	switch ud := ud.(type) {
	case *types.Slice:
		// string -> []byte / []rune
		if s, ok := x.(string); ok {
			eb := ud.Elem().Underlying().(*types.Basic)
			var out []value
			if eb.Kind() == types.Int32 {
				for _, r := range s {
					out = append(out, mkBV(32, uint64(r)))
				}
			} else {
				for i := 0; i < len(s); i++ {
					out = append(out, mkBV(8, uint64(s[i])))
				}
			}
			if out == nil {
				out = []value{}
			}
			return out
		}
		return x
	case *types.Basic:
		if ud.Info()&types.IsString != 0 {
			switch x := x.(type) {
			case string:
				return x
			case memString:
				return x
			case []value:
				bs := make([]byte, 0, len(x))
				rs := []rune{}
				isRune := false
				if sl, ok := us.(*types.Slice); ok {
					if eb, ok := sl.Elem().Underlying().(*types.Basic); ok && eb.Kind() == types.Int32 {
						isRune = true
					}
				}
				for _, e := range x {
					c := m.concretize(e.(*Term), "byte->string")
					if isRune {
						rs = append(rs, rune(c))
					} else {
						bs = append(bs, byte(c))
					}
				}
				if isRune {
					return string(rs)
				}
				return string(bs)
			case *Term:
				return string(rune(m.concretize(x, "rune->string")))
			}
			unsupported("conversion to string from %T", x)
		}
		t, ok := x.(*Term)
		if !ok {
			unsupported("conversion of %T to %v", x, tdst)
		}
		sb, ok := us.(*types.Basic)
		if !ok {
			unsupported("conversion from %v", tsrc)
		}
		dstFloat := ud.Info()&types.IsFloat != 0
		srcFloat := sb.Info()&types.IsFloat != 0
		switch {
		case dstFloat && srcFloat:
			return mkFPToFP(t, bitsOf(ud))
		case dstFloat:
			return mkIntToFP(t, isSigned(tsrc), bitsOf(ud))
		case srcFloat:
			w := bitsOf(ud)
			signed := isSigned(tdst)
			if !t.isC {
				// Go leaves out-of-range float->int conversions implementation-defined:
				// the executor demands that they cannot happen.
				var lo, hi float64
				if signed {
					lo, hi = -float64(uint64(1)<<uint(w-1)), float64(uint64(1)<<uint(w-1))
				} else {
					lo, hi = -1, float64(uint64(1)<<uint(w-1))*2
				}
				fw := t.sort.W
				inr := mkAnd(mkFPCmp("fp.gt", t, mkFP(fw, lo-boolToF(signed && false))), mkFPCmp("fp.lt", t, mkFP(fw, hi)))
				if signed {
					inr = mkAnd(mkFPCmp("fp.geq", t, mkFP(fw, lo)), mkFPCmp("fp.lt", t, mkFP(fw, hi)))
				}
				m.obligation("float-to-int-in-range@"+posString(m.eng.prog, fr.curPos()), inr)
			}
			return mkFPToInt(t, signed, w)
		default:
			return mkResize(t, bitsOf(ud), isSigned(tsrc))
		}
	}
	return x
}

func boolToF(b bool) float64 {
	if b {
		return 1
	}
	return 0
}

func (fr *frame) curPos() token.Pos {
	// best effort: position of the function
	if fr.fn != nil {
		return fr.fn.Pos()
	}
	return token.NoPos
}
