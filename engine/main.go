package main

import (
	"encoding/json"
	"flag"
	"fmt"
	"os"
	"path/filepath"
	"runtime/pprof"
	"sort"
	"strconv"
	"strings"
	"sync"
	"time"
)

type PropSpec struct {
	Level        string        `json:"level"`
	Assumptions  []string      `json:"assumptions"`
	OutsideBound []string      `json:"outside_bound"`
	Stubs        []string      `json:"stubs"`
	Quick        []HarnessSpec `json:"quick"`
	Thorough     []HarnessSpec `json:"thorough"`
}

type paramFlags map[string]int64

func (p paramFlags) String() string { return fmt.Sprint(map[string]int64(p)) }
func (p paramFlags) Set(s string) error {
	kv := strings.SplitN(s, "=", 2)
	if len(kv) != 2 {
		return fmt.Errorf("want name=value")
	}
	v, err := strconv.ParseInt(kv[1], 0, 64)
	if err != nil {
		return err
	}
	p[kv[0]] = v
	return nil
}

func main() {
	if len(os.Args) < 2 {
		fmt.Fprintln(os.Stderr, "usage: gosmt check|run|replay ...")
		os.Exit(2)
	}
	cmd := os.Args[1]
	fs := flag.NewFlagSet(cmd, flag.ExitOnError)
	repo := fs.String("repo", "/repo", "repository root")
	verif := fs.String("verif", "/verif", "verification root")
	prop := fs.String("prop", "", "property id")
	tier := fs.String("tier", "quick", "quick|thorough")
	fn := fs.String("func", "", "harness function (run)")
	pkg := fs.String("pkg", "internal", "harness package: internal|theine")
	workers := fs.Int("workers", 16, "parallel workers")
	maxPaths := fs.Int("max-paths", 0, "path limit")
	solverBin := fs.String("solver", "z3", "solver binary")
	timeout := fs.Int("timeout-ms", 60000, "per-query timeout")
	verbose := fs.Bool("v", false, "verbose")
	parH := fs.Int("par", 3, "harness runs executed concurrently")
	file := fs.String("file", "", "replay file")
	evdir := fs.String("evdir", "", "evidence directory (default <verif>/evidence)")
	stepLimit := fs.Int64("step-limit", 0, "instruction budget per path")
	params := paramFlags{}
	fs.Var(params, "D", "harness parameter name=value")
	fs.Parse(os.Args[2:])

	if pf := os.Getenv("GOSMT_PROF"); pf != "" {
		f, _ := os.Create(pf)
		pprof.StartCPUProfile(f)
		defer pprof.StopCPUProfile()
	}
	seed := 0
	if s := os.Getenv("VERIF_SEED"); s != "" {
		seed, _ = strconv.Atoi(s)
	}
	if t := os.Getenv("VERIF_TIER"); t != "" && cmd == "check" && !isFlagSet(fs, "tier") {
		*tier = t
	}
	t0 := time.Now()
	eng, err := loadEngine(*repo, filepath.Join(*verif, "harness"))
	if err != nil {
		fmt.Fprintln(os.Stderr, "gosmt: cannot load repository:", err)
		os.Exit(2)
	}
	eng.verbose = *verbose
	eng.evdir = filepath.Join(*verif, "evidence")
	if *evdir != "" {
		eng.evdir = *evdir
	}
	eng.solverBin = *solverBin
	eng.timeoutMs = *timeout
	eng.seed = seed
	eng.workers = *workers
	eng.pathSem = make(chan struct{}, *workers)
	eng.parallelHarness = *parH
	if eng.parallelHarness < 1 {
		eng.parallelHarness = 1
	}
	if b, err := os.ReadFile(filepath.Join(*verif, "known_findings.json")); err == nil {
		var kf struct {
			Findings []KnownFinding `json:"findings"`
		}
		if err := json.Unmarshal(b, &kf); err != nil {
			fmt.Fprintln(os.Stderr, "gosmt: bad known_findings.json:", err)
			os.Exit(2)
		}
		eng.known = kf.Findings
	}

	switch cmd {
	case "run":
		spec := HarnessSpec{Func: *fn, Pkg: *pkg, Params: params, MaxPaths: *maxPaths, StepLimit: *stepLimit}
		ps := &PropSpec{Level: "model_checking", Quick: []HarnessSpec{spec}}
		id := *prop
		if id == "" {
			id = "DEV"
		}
		rc := runCheck(eng, id, "quick", ps, *verif, seed, t0, id == "DEV")
		pprof.StopCPUProfile()
		os.Exit(rc)
	case "check":
		b, err := os.ReadFile(filepath.Join(*verif, "checks.json"))
		if err != nil {
			fmt.Fprintln(os.Stderr, "gosmt:", err)
			os.Exit(2)
		}
		var all map[string]*PropSpec
		if err := json.Unmarshal(b, &all); err != nil {
			fmt.Fprintln(os.Stderr, "gosmt: bad checks.json:", err)
			os.Exit(2)
		}
		ps := all[*prop]
		if ps == nil {
			fmt.Fprintln(os.Stderr, "gosmt: no spec for property", *prop)
			os.Exit(2)
		}
		os.Exit(runCheck(eng, *prop, *tier, ps, *verif, seed, t0, false))
	case "replay":
		b, err := os.ReadFile(*file)
		if err != nil {
			fmt.Fprintln(os.Stderr, "gosmt:", err)
			os.Exit(2)
		}
		var rec struct {
			Violation
			Spec HarnessSpec `json:"spec"`
		}
		if err := json.Unmarshal(b, &rec); err != nil {
			fmt.Fprintln(os.Stderr, "gosmt: bad replay file:", err)
			os.Exit(2)
		}
		h, err := eng.newRun(rec.Spec)
		if err != nil {
			fmt.Fprintln(os.Stderr, "gosmt:", err)
			os.Exit(2)
		}
		ok, why := eng.replayRecord(h, &rec.Violation)
		if ok {
			fmt.Printf("REPRODUCED %s %s label=%s: %s\n", rec.Kind, rec.Harness, rec.Label, rec.Msg)
			if rec.Kind == "violation" {
				os.Exit(1)
			}
			os.Exit(0)
		}
		fmt.Printf("NOT REPRODUCED: %s\n", why)
		os.Exit(2)
	default:
		fmt.Fprintln(os.Stderr, "unknown command", cmd)
		os.Exit(2)
	}
}

func isFlagSet(fs *flag.FlagSet, name string) bool {
	set := false
	fs.Visit(func(f *flag.Flag) {
		if f.Name == name {
			set = true
		}
	})
	return set
}

func runCheck(eng *engine, prop, tier string, ps *PropSpec, verif string, seed int, t0 time.Time, dev bool) int {
	specs := ps.Quick
	if tier == "thorough" && len(ps.Thorough) > 0 {
		specs = ps.Thorough
	}
	var runs []*harnessRun
	violLines := []string{}
	inconclusive := []string{}
	knownPrinted := map[*KnownFinding]bool{}
	validated := 0
	confirmedViolations := 0
	replayDir := filepath.Join(verif, "replays")
	if eng.evdir != filepath.Join(verif, "evidence") {
		replayDir = filepath.Join(eng.evdir, "replays")
	}
	var outMu sync.Mutex
	sem := make(chan struct{}, eng.parallelHarness)
	var wgAll sync.WaitGroup
	runs = make([]*harnessRun, len(specs))
	for si, spec := range specs {
		wgAll.Add(1)
		sem <- struct{}{}
		go func(si int, spec HarnessSpec) {
			defer wgAll.Done()
			defer func() { <-sem }()
			var out strings.Builder
			var incl []string
			var viol []string
			nValidated, nConfirmed := 0, 0
			var hr *harnessRun
			func() {
				h, err := eng.newRun(spec)
				if err != nil {
					fmt.Fprintln(&out, "INCONCLUSIVE", prop, err)
					incl = append(incl, err.Error())
					return
				}
				hr = h
				opts := exploreOpts{maxPaths: spec.MaxPaths}
				if spec.TimeoutSec > 0 {
					opts.deadline = time.Now().Add(time.Duration(spec.TimeoutSec) * time.Second)
				}
				eng.explore(h, opts)
				tag := h.name
				if h.config != "" {
					tag += "[" + h.config + "]"
				}
				nObl, nDis := 0, 0
				for _, c := range h.obligations {
					nObl += c
				}
				for _, c := range h.discharged {
					nDis += c
				}
				fmt.Fprintf(&out, "%s %s: paths=%d %v instr=%d sched-points=%d obligations=%d discharged=%d queries(sat=%d unsat=%d unknown=%d err=%d) solver=%.1fs wall=%.1fs exhausted=%v\n",
					prop, tag, h.paths, h.pathsByStatus, h.steps, h.transitions, nObl, nDis, h.solver.Sat, h.solver.Unsat, h.solver.Unknown, h.solver.Errors, h.solver.Seconds, h.wall, h.exhausted)
				if eng.verbose && len(h.forks) > 0 {
					type kv struct {
						k string
						v int
					}
					var kvs []kv
					for k, v := range h.forks {
						kvs = append(kvs, kv{k, v})
					}
					sort.Slice(kvs, func(i, j int) bool { return kvs[i].v > kvs[j].v })
					for i, x := range kvs {
						if i >= 25 {
							break
						}
						fmt.Fprintf(&out, "    fork x%d at %s\n", x.v, x.k)
					}
				}
				for _, em := range h.errors {
					fmt.Fprintf(&out, "  engine error: %s\n", em)
					incl = append(incl, tag+": engine error: "+em)
				}
				if !h.exhausted && len(h.violations) == 0 && len(h.errors) == 0 {
					incl = append(incl, tag+": exploration not exhausted (path/time limit)")
				}
				if h.stepLimitHits > 0 {
					incl = append(incl, fmt.Sprintf("%s: %d paths hit the instruction budget (unwinding failure)", tag, h.stepLimitHits))
				}
				for l, c := range h.inconclusive {
					incl = append(incl, fmt.Sprintf("%s: assertion %q undecided on %d paths (solver unknown)", tag, l, c))
				}
				if h.solver.Errors > 0 {
					incl = append(incl, fmt.Sprintf("%s: %d solver errors", tag, h.solver.Errors))
				}
				// witnesses (vacuity guard)
				var labels []string
				for l := range h.witnesses {
					labels = append(labels, l)
				}
				sort.Strings(labels)
				for _, l := range labels {
					w := h.witnesses[l]
					ok, why := eng.replayRecord(h, &w)
					if ok {
						nValidated++
						h.witnessOK[l] = true
					} else {
						incl = append(incl, fmt.Sprintf("%s: witness %q does not replay: %s", tag, l, why))
					}
				}
				need := spec.Reach
				if len(need) == 0 && len(h.violations) == 0 {
					if len(h.witnessOK) == 0 {
						incl = append(incl, tag+": no reachability witness (vacuous harness?)")
					}
				}
				for _, l := range need {
					if !h.witnessOK[l] && len(h.violations) == 0 {
						incl = append(incl, fmt.Sprintf("%s: required witness %q not reached (vacuous)", tag, l))
					}
				}
				// violations
				seen := map[string]bool{}
				for i := range h.violations {
					v := h.violations[i]
					if seen[v.Label] {
						continue
					}
					seen[v.Label] = true
					ok, why := eng.replayRecord(h, &v)
					if !ok {
						incl = append(incl, fmt.Sprintf("%s: counterexample for %q did not replay: %s", tag, v.Label, why))
						continue
					}
					nValidated++
					nConfirmed++
					name := fmt.Sprintf("%s_%s_%s_%s.json", prop, h.name, sanitize(h.config), sanitize(v.Label))
					path := filepath.Join(replayDir, name)
					rf := struct {
						Violation
						Spec HarnessSpec `json:"spec"`
					}{v, h.spec}
					if err := writeJSON(path, rf); err != nil {
						fmt.Fprintln(os.Stderr, "cannot write replay:", err)
					}
					fmt.Fprintf(&out, "  counterexample %s label=%q: %s\n    values=%s notes=%v\n", tag, v.Label, v.Msg, shortVals(v.Values), v.Notes)
					viol = append(viol, fmt.Sprintf("VIOLATION property=%s replay=%s", prop, path))
				}
				for k := range h.knownHits {
					outMu.Lock()
					first := !knownPrinted[k]
					knownPrinted[k] = true
					outMu.Unlock()
					if first {
						fmt.Fprintf(&out, "KNOWN-FINDING: property=%s %s [%s/%s %s]\n", k.Property, k.What, k.Harness, k.Label, k.Where)
					}
				}
			}()
			outMu.Lock()
			fmt.Print(out.String())
			runs[si] = hr
			inconclusive = append(inconclusive, incl...)
			violLines = append(violLines, viol...)
			validated += nValidated
			confirmedViolations += nConfirmed
			outMu.Unlock()
		}(si, spec)
	}
	wgAll.Wait()
	{
		var rr []*harnessRun
		for _, r := range runs {
			if r != nil {
				rr = append(rr, r)
			}
		}
		runs = rr
	}
	wall := time.Since(t0).Seconds()
	if !dev {
		writeEvidence(eng, prop, tier, ps, runs, verif, seed, wall, validated, confirmedViolations, inconclusive)
	}
	for _, l := range violLines {
		fmt.Println(l)
	}
	if len(violLines) > 0 {
		return 1
	}
	if len(inconclusive) > 0 {
		for _, l := range inconclusive {
			fmt.Println("INCONCLUSIVE", prop, l)
		}
		return 2
	}
	fmt.Printf("OK %s tier=%s wall=%.1fs\n", prop, tier, wall)
	return 0
}

func sanitize(s string) string {
	var sb strings.Builder
	for _, r := range s {
		if (r >= 'a' && r <= 'z') || (r >= 'A' && r <= 'Z') || (r >= '0' && r <= '9') || r == '-' || r == '_' {
			sb.WriteRune(r)
		} else {
			sb.WriteRune('_')
		}
	}
	return sb.String()
}

func shortVals(vs map[string]ModelVal) string {
	var ks []string
	for k := range vs {
		ks = append(ks, k)
	}
	sort.Strings(ks)
	var ss []string
	for i, k := range ks {
		if i >= 24 {
			ss = append(ss, "...")
			break
		}
		v := vs[k]
		if strings.Contains(v.Sort, "Float") {
			ss = append(ss, fmt.Sprintf("%s=%g", k, v.F))
		} else {
			ss = append(ss, fmt.Sprintf("%s=%d", k, int64(v.Bits)))
		}
	}
	return "{" + strings.Join(ss, " ") + "}"
}

func writeEvidence(eng *engine, prop, tier string, ps *PropSpec, runs []*harnessRun, verif string, seed int, wall float64, validated, violations int, inconclusive []string) {
	states, trans := 0, int64(0)
	nObl, nDis := 0, 0
	q := map[string]int{"sat": 0, "unsat": 0, "unknown": 0, "error": 0}
	solverS := 0.0
	var samples []interface{}
	var hs []interface{}
	unwind := 0
	for _, h := range runs {
		states += h.paths
		trans += h.steps
		o, d := 0, 0
		for _, c := range h.obligations {
			o += c
		}
		for _, c := range h.discharged {
			d += c
		}
		nObl += o
		nDis += d
		q["sat"] += h.solver.Sat
		q["unsat"] += h.solver.Unsat
		q["unknown"] += h.solver.Unknown
		q["error"] += h.solver.Errors
		solverS += h.solver.Seconds
		unwind += h.stepLimitHits
		var wl []string
		for l := range h.witnessOK {
			wl = append(wl, l)
		}
		sort.Strings(wl)
		hs = append(hs, map[string]interface{}{
			"harness": h.name, "config": h.config, "bounds": h.spec.Bounds, "paths": h.paths, "paths_by_status": h.pathsByStatus,
			"instructions": h.steps, "scheduling_points": h.transitions, "max_decision_depth": h.maxDepth,
			"assertions_by_label": h.obligations, "discharged_by_label": h.discharged, "exhausted_within_bound": h.exhausted,
			"witnesses_replayed": wl, "wall_s": h.wall,
		})
		for l, w := range h.witnesses {
			if len(samples) < 6 {
				samples = append(samples, map[string]interface{}{"harness": h.name, "config": h.config, "kind": "reachability witness (solver model, replayed concretely)", "label": l, "values": shortVals(w.Values), "notes": w.Notes, "decisions": len(w.Trace)})
			}
		}
		for _, s := range h.samples {
			if len(samples) < 10 {
				s["harness"] = h.name
				samples = append(samples, s)
			}
		}
	}
	if len(samples) == 0 {
		samples = append(samples, map[string]interface{}{"note": "no path completed"})
	}
	// functions encoded: repository functions only, by instruction count executed symbolically
	fe := map[string]int64{}
	eng.fnMu.Lock()
	for k, v := range eng.fnTotals {
		if strings.Contains(k, "theine-go") && !strings.Contains(k, "ZZ_") && !strings.Contains(k, ".zz") {
			fe[k] = v
		}
	}
	eng.fnMu.Unlock()
	if states < 1 {
		states = 1
	}
	if trans < 1 {
		trans = 1
	}
	ev := map[string]interface{}{
		"property_id": prop,
		"tier":        tier,
		"seed":        seed,
		"level":       "model_checking",
		"coverage": map[string]interface{}{
			"states":                        states,
			"transitions":                   trans,
			"traces_validated_against_impl": validated,
			"samples":                       samples,
			"obligations":                   nObl,
			"discharged":                    nDis,
			"functions_encoded":             fe,
			"harnesses":                     hs,
			"queries":                       q,
			"solver_s":                      solverS,
			"solver":                        eng.solverBin,
			"unwinding_failures":            unwind,
			"inconclusive":                  inconclusive,
			"outside_bound":                 ps.OutsideBound,
			"stubs":                         ps.Stubs,
			"exhaustive":                    len(inconclusive) == 0,
			"explanation":                   "states = symbolic paths (path condition x schedule prefix) executed over the SSA of /repo's current working tree; transitions = SSA instructions executed symbolically; every assertion is an SMT query path-condition AND NOT(assertion), unsat = holds for all values of the symbolic inputs on that path; traces_validated = solver models (witnesses and counterexamples) re-executed concretely on freshly loaded code",
		},
		"assumptions": ps.Assumptions,
		"wall_s":      wall,
		"violations":  violations,
	}
	if err := writeJSON(filepath.Join(eng.evdir, prop+".json"), ev); err != nil {
		fmt.Fprintln(os.Stderr, "cannot write evidence:", err)
	}
}
