package main

// Happens-before (vector clock) data-race monitor over the executor's heap cells (C19).

import (
	"fmt"
	"os"
	"strings"
)

var raceDebug = os.Getenv("GOSMT_RACEDBG") != ""

type vclock map[int]int

func (v vclock) copy() vclock {
	c := make(vclock, len(v))
	for k, x := range v {
		c[k] = x
	}
	return c
}

func (v vclock) join(o vclock) {
	for k, x := range o {
		if x > v[k] {
			v[k] = x
		}
	}
}

type cellState struct {
	wT, wC   int // last write epoch
	wAtomic  bool
	wWhere   string
	reads    vclock // thread -> clock of last read
	rAtomic  map[int]bool
	rWhere   map[int]string
	syncVC   vclock // release clock of atomic accesses
	hasWrite bool
}

type raceState struct {
	m     *machine
	cells map[interface{}]*cellState
	races []string
	seen  map[string]bool
}

func newRaceState(m *machine) *raceState {
	return &raceState{m: m, cells: map[interface{}]*cellState{}, seen: map[string]bool{}}
}

func (r *raceState) vc(t *thread) vclock {
	if t.vc == nil {
		t.vc = vclock{t.id: 1}
	}
	return t.vc
}

func (r *raceState) fork(parent, child *thread) {
	child.vc = r.vc(parent).copy()
	child.vc[child.id] = 1
	parent.vc[parent.id]++
}

func (r *raceState) exit(t *thread) {}

func (r *raceState) release(t *thread) vclock {
	c := r.vc(t).copy()
	t.vc[t.id]++
	return c
}

func (r *raceState) acquire(t *thread, c vclock) {
	if c != nil {
		r.vc(t).join(c)
	}
}

func (r *raceState) where(t *thread) string {
	return fmt.Sprintf("T%d(%s)", t.id, t.name)
}

func (r *raceState) report(kind string, loc interface{}, a, b string) {
	msg := fmt.Sprintf("%s on %T cell: %s vs %s", kind, loc, a, b)
	if !r.seen[msg] {
		r.seen[msg] = true
		r.races = append(r.races, msg)
	}
}

func (r *raceState) access(t *thread, loc interface{}, write bool, atomic bool) {
	if p, ok := loc.(*value); ok && p != nil {
		// descend into aggregates so that field-wise and whole-struct accesses meet
		switch v := (*p).(type) {
		case structure:
			for i := range v {
				r.access(t, &v[i], write, atomic)
			}
			return
		case array:
			if len(v) > 64 {
				return // padding arrays
			}
			for i := range v {
				r.access(t, &v[i], write, atomic)
			}
			return
		}
	}
	vc := r.vc(t)
	cs := r.cells[loc]
	if cs == nil {
		cs = &cellState{reads: vclock{}, rAtomic: map[int]bool{}, rWhere: map[int]string{}}
		r.cells[loc] = cs
	}
	here := r.where(t) + " in " + r.m.curFuncName(t)
	if raceDebug {
		fn := r.m.curFuncName(t)
		if strings.HasPrefix(fn, "pentry") || strings.HasPrefix(fn, "setShardWithoutLock") {
			fmt.Fprintf(os.Stderr, "RACEDBG %s write=%v loc=%p vc=%v reads=%v w=(%d,%d,%v)\n", here, write, loc, vc, cs.reads, cs.wT, cs.wC, cs.hasWrite)
		}
	}
	if atomic {
		if cs.syncVC != nil {
			vc.join(cs.syncVC)
		}
	}
	// write-X race
	if cs.hasWrite && cs.wT != t.id && cs.wC > vc[cs.wT] && !(atomic && cs.wAtomic) {
		r.report("write/"+map[bool]string{true: "write", false: "read"}[write], loc, cs.wWhere, here)
	}
	if write {
		for tid, c := range cs.reads {
			if tid != t.id && c > vc[tid] && !(atomic && cs.rAtomic[tid]) {
				r.report("read/write", loc, cs.rWhere[tid], here)
			}
		}
		cs.hasWrite = true
		cs.wT, cs.wC, cs.wAtomic, cs.wWhere = t.id, vc[t.id], atomic, here
		cs.reads = vclock{}
		cs.rAtomic = map[int]bool{}
		cs.rWhere = map[int]string{}
	} else {
		cs.reads[t.id] = vc[t.id]
		cs.rAtomic[t.id] = atomic
		cs.rWhere[t.id] = here
	}
	if atomic && write {
		// only an atomic operation with an effect (store, swap, add, successful or attempted CAS) can be
		// observed by a later atomic operation and so be synchronised before it; an atomic load acquires
		// (above) but publishes nothing
		if cs.syncVC == nil {
			cs.syncVC = vclock{}
		}
		cs.syncVC.join(vc)
		t.vc[t.id]++
	}
}

func (m *machine) curFuncName(t *thread) string {
	if t.fn != nil {
		return t.fn.Name()
	}
	return "?"
}
