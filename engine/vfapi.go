package main

// Harness API: bodyless functions vf* declared in harness files are intercepted here.

import (
	"fmt"
)

func strArg(v value) string {
	s, ok := v.(string)
	if !ok {
		panic(engineError{"harness API: name/label must be a constant string"})
	}
	return s
}

var vfAPI map[string]intrinsic

func nondet(w int) intrinsic {
	return func(fr *frame, a []value) value { return fr.m().fresh(strArg(a[0]), BV(w)) }
}

func init() {
	vfAPI = map[string]intrinsic{
		"vfU64":  nondet(64),
		"vfI64":  nondet(64),
		"vfInt":  nondet(64),
		"vfUint": nondet(64),
		"vfU32":  nondet(32),
		"vfI32":  nondet(32),
		"vfU16":  nondet(16),
		"vfU8":   nondet(8),
		"vfI8":   nondet(8),
		"vfBool": func(fr *frame, a []value) value { return fr.m().fresh(strArg(a[0]), BoolSort) },
		"vfF32":  func(fr *frame, a []value) value { return fr.m().fresh(strArg(a[0]), FP(32)) },
		"vfF64":  func(fr *frame, a []value) value { return fr.m().fresh(strArg(a[0]), FP(64)) },
		"vfChoose": func(fr *frame, a []value) value {
			m := fr.m()
			n := m.concretize(bvOf(a[1]), "vfChoose")
			c := m.choose(int(n), 'c')
			name := strArg(a[0])
			if name != "" {
				m.noteConst(name, int64(c))
			}
			return mkBV(64, uint64(c))
		},
		"vfAssume": func(fr *frame, a []value) value {
			m := fr.m()
			c := bvOf(a[0])
			if c.IsTrue() {
				return nil
			}
			if c.IsFalse() {
				m.endPath("infeasible")
			}
			if m.replay != nil {
				panic(engineError{"symbolic assume in replay"})
			}
			if ev, ok := m.eval(c); ok && ev == 1 {
				m.addPCKeepModel(c)
				return nil
			}
			r, vals := m.check([]*Term{c}, m.vars)
			if r == "unsat" {
				m.endPath("infeasible")
			}
			m.addPCKeepModel(c)
			if r == "sat" {
				m.setModel(vals)
			} else {
				m.dropModel()
			}
			return nil
		},
		"vfAssert": func(fr *frame, a []value) value {
			fr.m().obligation(strArg(a[0]), bvOf(a[1]))
			return nil
		},
		"vfReach": func(fr *frame, a []value) value {
			fr.m().reach(strArg(a[0]))
			return nil
		},
		"vfNote": func(fr *frame, a []value) value {
			m := fr.m()
			name := strArg(a[0])
			if _, ok := m.notes[name]; !ok {
				m.noteOrder = append(m.noteOrder, name)
			}
			m.notes[name] = bvOf(a[1])
			return nil
		},
		"vfImplies": func(fr *frame, a []value) value { return mkImplies(bvOf(a[0]), bvOf(a[1])) },
		"vfAnd":     func(fr *frame, a []value) value { return mkAnd(bvOf(a[0]), bvOf(a[1])) },
		"vfOr":      func(fr *frame, a []value) value { return mkOr(bvOf(a[0]), bvOf(a[1])) },
		"vfIte64":   func(fr *frame, a []value) value { return mkIte(bvOf(a[0]), bvOf(a[1]), bvOf(a[2])) },
		"vfIteU64":  func(fr *frame, a []value) value { return mkIte(bvOf(a[0]), bvOf(a[1]), bvOf(a[2])) },
		"vfClockNow": func(fr *frame, a []value) value {
			return fr.m().clock
		},
		"vfClockSet": func(fr *frame, a []value) value {
			fr.m().clock = bvOf(a[0])
			return nil
		},
		"vfClockAdvance": func(fr *frame, a []value) value {
			m := fr.m()
			m.clock = mkBin("bvadd", m.clock, bvOf(a[0]))
			return nil
		},
		"vfFireTickers": func(fr *frame, a []value) value {
			m := fr.m()
			n := 0
			for _, t := range m.tickers {
				if !t.stopped && len(t.ch.buf) == 0 {
					t.ch.buf = append(t.ch.buf, timeVal(m.clock))
					if m.race != nil {
						t.ch.bufVC = append(t.ch.bufVC, nil)
					}
					n++
				}
			}
			return mkBV(64, uint64(n))
		},
		"vfActiveTickers": func(fr *frame, a []value) value {
			n := 0
			for _, t := range fr.m().tickers {
				if !t.stopped {
					n++
				}
			}
			return mkBV(64, uint64(n))
		},
		"vfQuiesce": func(fr *frame, a []value) value {
			m := fr.m()
			th := fr.th
			m.sched(th, "quiesce", func() bool { return !m.othersEnabled(th) })
			return nil
		},
		"vfYield": func(fr *frame, a []value) value {
			fr.m().sched(fr.th, "yield", func() bool { return true })
			return nil
		},
		"vfSetPreemptions": func(fr *frame, a []value) value {
			fr.m().preemptions = int(fr.m().concretize(bvOf(a[0]), "preemptions"))
			return nil
		},
		"vfSetAtomicVisible": func(fr *frame, a []value) value {
			fr.m().atomVisible = bvOf(a[0]).IsTrue()
			return nil
		},
		"vfSetPoolMode": func(fr *frame, a []value) value {
			fr.m().poolMode = int(fr.m().concretize(bvOf(a[0]), "poolmode"))
			return nil
		},
		"vfSetHashMode": func(fr *frame, a []value) value {
			fr.m().hashMode = int(fr.m().concretize(bvOf(a[0]), "hashmode"))
			return nil
		},
		"vfSetIdealRBMutex": func(fr *frame, a []value) value {
			fr.m().idealRB = bvOf(a[0]).IsTrue()
			return nil
		},
		"vfSetRaceDetector": func(fr *frame, a []value) value {
			m := fr.m()
			if bvOf(a[0]).IsTrue() {
				if m.race == nil {
					m.race = newRaceState(m)
				}
			} else {
				m.race = nil
			}
			return nil
		},
		"vfRaceCount": func(fr *frame, a []value) value {
			m := fr.m()
			if m.race == nil {
				return mkBV(64, 0)
			}
			return mkBV(64, uint64(len(m.race.races)))
		},
		"vfAssertNoRace": func(fr *frame, a []value) value {
			m := fr.m()
			if m.race != nil && len(m.race.races) > 0 {
				m.violationNow(strArg(a[0]), "data race: "+m.race.races[0])
			} else {
				m.h.countObligation(strArg(a[0]))
				m.h.countDischarged(strArg(a[0]), "const")
			}
			return nil
		},
		"vfSymU64Slice": func(fr *frame, a []value) value {
			m := fr.m()
			arr := m.fresh(strArg(a[0]), ArrSort)
			n := mkResize(bvOf(a[1]), 64, true)
			return &symSlice{b: &symBack{arr: arr}, len: n, cap: n}
		},
		"vfLiveThreads": func(fr *frame, a []value) value {
			return mkBV(64, uint64(fr.m().liveOthers(fr.th)))
		},
		"vfStepLimit": func(fr *frame, a []value) value {
			m := fr.m()
			n := m.concretize(bvOf(a[0]), "steplimit")
			m.stepLimit = m.steps + n
			m.stepLabel = strArg(a[1])
			return nil
		},
		"vfConcrete": func(fr *frame, a []value) value {
			m := fr.m()
			t := bvOf(a[0])
			return mkBV(t.sort.W, uint64(m.concretize(t, "vfConcrete")))
		},
		"vfMayBeFull": func(fr *frame, a []value) value {
			m := fr.m()
			if ch, ok := a[0].(iface).v.(*chanObj); ok && ch != nil {
				m.mayBeFull[ch] = true
			}
			return nil
		},
		"vfThreadID": func(fr *frame, a []value) value { return mkBV(64, uint64(fr.th.id)) },
		"vfIsReplay": func(fr *frame, a []value) value { return mkBool(fr.m().replay != nil) },
		"vfConfig": func(fr *frame, a []value) value {
			// integer configuration parameter given on the command line (-D name=value), with a default
			m := fr.m()
			name := strArg(a[0])
			if v, ok := m.h.params[name]; ok {
				return mkBV(64, uint64(v))
			}
			return a[1]
		},
		"vfUF64": func(fr *frame, a []value) value {
			return fr.m().uf(strArg(a[0]), BV(64), bvOf(a[1]))
		},
		"vfStub": func(fr *frame, a []value) value {
			m := fr.m()
			if m.stubs == nil {
				m.stubs = map[string]*stubState{}
			}
			m.stubs[strArg(a[0])] = &stubState{}
			return nil
		},
		"vfStubNondet": func(fr *frame, a []value) value {
			m := fr.m()
			if m.stubs == nil {
				m.stubs = map[string]*stubState{}
			}
			m.stubs[strArg(a[0])] = &stubState{nondet: true}
			return nil
		},
		"vfUnstub": func(fr *frame, a []value) value {
			delete(fr.m().stubs, strArg(a[0]))
			return nil
		},
		"vfStubCalls": func(fr *frame, a []value) value {
			if c, ok := fr.m().stubs[strArg(a[0])]; ok {
				return mkBV(64, uint64(c.calls))
			}
			return mkBV(64, 0)
		},
		"vfDigest": func(fr *frame, a []value) value {
			t := bvOf(a[1])
			if !t.isC {
				panic(engineError{"vfDigest of a symbolic value"})
			}
			fmt.Printf("DIGEST %s %d\n", strArg(a[0]), t.c)
			return nil
		},
		"vfFail": func(fr *frame, a []value) value {
			fr.m().obligation(strArg(a[0]), falseT)
			return nil
		},
		"vfPrint": func(fr *frame, a []value) value {
			if fr.m().eng.verbose {
				fmt.Printf("  [harness] %s %s\n", strArg(a[0]), toString(a[1]))
			}
			return nil
		},
	}
	registerGob()
	registerReflect()
}

func (m *machine) noteConst(name string, v int64) {
	k := m.nameCount["note:"+name]
	m.nameCount["note:"+name]++
	full := name
	if k > 0 {
		full = fmt.Sprintf("%s#%d", name, k)
	}
	if _, ok := m.notes[full]; !ok {
		m.noteOrder = append(m.noteOrder, full)
	}
	m.notes[full] = mkBV(64, uint64(v))
}
