package main

// Environment stubs (DESIGN.md §2.5) and the harness API (vf*).

import (
	"fmt"
	"go/types"
	"math"
	"math/bits"
	"strings"

	"golang.org/x/tools/go/ssa"
)

type intrinsic func(fr *frame, args []value) value

type intrinsicObj interface {
	invoke(fr *frame, method string, args []value) value
}

const repoInternal = "github.com/Yiling-J/theine-go/internal"

func (e *engine) intrinsicFor(fn *ssa.Function) intrinsic {
	if in, ok := e.intrCache.Load(fn); ok {
		if in == nil {
			return nil
		}
		return in.(intrinsic)
	}
	var in intrinsic
	name := fn.String()
	if fn.Blocks == nil && strings.HasPrefix(fn.Name(), "vf") {
		if f, ok := vfAPI[fn.Name()]; ok {
			in = f
		} else {
			nm := fn.Name()
			in = func(fr *frame, args []value) value {
				panic(engineError{"unknown harness API function " + nm})
			}
		}
	} else if f, ok := intrinsics[name]; ok {
		in = f
	} else if strings.HasPrefix(name, "sync/atomic.") {
		in = atomicIntrinsic(strings.TrimPrefix(name, "sync/atomic."))
	}
	if in == nil {
		e.intrCache.Store(fn, nil)
		return nil
	}
	e.intrCache.Store(fn, in)
	return in
}

func fieldIndex(t types.Type, name string) int {
	st := t.Underlying().(*types.Struct)
	for i := 0; i < st.NumFields(); i++ {
		if st.Field(i).Name() == name {
			return i
		}
	}
	panic("no field " + name)
}

func recvStruct(fr *frame) types.Type {
	return derefT(fr.fn.Signature.Recv().Type())
}

func bvOf(v value) *Term { return v.(*Term) }

func errIface(m *machine, msg string) value {
	// an error value of dynamic type *errors.errorString
	cell := value(structure{msg})
	return iface{t: m.eng.errorStringPtr, v: &cell}
}

var intrinsics map[string]intrinsic

func init() {
	intrinsics = map[string]intrinsic{
		// ---- sync ----
		"(*sync.Mutex).Lock": func(fr *frame, a []value) value {
			m := fr.m()
			ms := m.mutex(a[0].(*value))
			m.sched(fr.th, "Mutex.Lock", func() bool { return !ms.locked })
			ms.locked = true
			if m.race != nil {
				m.race.acquire(fr.th, ms.relVC)
			}
			return nil
		},
		"(*sync.Mutex).TryLock": func(fr *frame, a []value) value {
			m := fr.m()
			ms := m.mutex(a[0].(*value))
			m.sched(fr.th, "Mutex.TryLock", func() bool { return true })
			if ms.locked {
				return falseT
			}
			ms.locked = true
			if m.race != nil {
				m.race.acquire(fr.th, ms.relVC)
			}
			return trueT
		},
		"(*sync.Mutex).Unlock": func(fr *frame, a []value) value {
			m := fr.m()
			ms := m.mutex(a[0].(*value))
			if !ms.locked {
				m.violationNow("no-panic", "fatal error: sync: unlock of unlocked mutex")
				m.endPath("violation")
			}
			if m.race != nil {
				ms.relVC = m.race.release(fr.th)
			}
			ms.locked = false
			return nil
		},
		"(*sync.RWMutex).Lock": func(fr *frame, a []value) value {
			m := fr.m()
			ms := m.mutex(a[0].(*value))
			m.sched(fr.th, "RWMutex.Lock", func() bool { return !ms.locked && ms.readers == 0 })
			ms.locked = true
			if m.race != nil {
				m.race.acquire(fr.th, ms.relVC)
				m.race.acquire(fr.th, ms.rrelVC)
			}
			return nil
		},
		"(*sync.RWMutex).TryLock": func(fr *frame, a []value) value {
			m := fr.m()
			ms := m.mutex(a[0].(*value))
			m.sched(fr.th, "RWMutex.TryLock", func() bool { return true })
			if ms.locked || ms.readers > 0 {
				return falseT
			}
			ms.locked = true
			if m.race != nil {
				m.race.acquire(fr.th, ms.relVC)
				m.race.acquire(fr.th, ms.rrelVC)
			}
			return trueT
		},
		"(*sync.RWMutex).Unlock": func(fr *frame, a []value) value {
			m := fr.m()
			ms := m.mutex(a[0].(*value))
			if !ms.locked {
				m.violationNow("no-panic", "fatal error: sync: Unlock of unlocked RWMutex")
				m.endPath("violation")
			}
			if m.race != nil {
				ms.relVC = m.race.release(fr.th)
			}
			ms.locked = false
			return nil
		},
		"(*sync.RWMutex).RLock": func(fr *frame, a []value) value {
			m := fr.m()
			ms := m.mutex(a[0].(*value))
			m.sched(fr.th, "RWMutex.RLock", func() bool { return !ms.locked })
			ms.readers++
			if m.race != nil {
				m.race.acquire(fr.th, ms.relVC)
			}
			return nil
		},
		"(*sync.RWMutex).TryRLock": func(fr *frame, a []value) value {
			m := fr.m()
			ms := m.mutex(a[0].(*value))
			m.sched(fr.th, "RWMutex.TryRLock", func() bool { return true })
			if ms.locked {
				return falseT
			}
			ms.readers++
			if m.race != nil {
				m.race.acquire(fr.th, ms.relVC)
			}
			return trueT
		},
		"(*sync.RWMutex).RUnlock": func(fr *frame, a []value) value {
			m := fr.m()
			ms := m.mutex(a[0].(*value))
			if ms.readers <= 0 {
				m.violationNow("no-panic", "fatal error: sync: RUnlock of unlocked RWMutex")
				m.endPath("violation")
			}
			if m.race != nil {
				if ms.rrelVC == nil {
					ms.rrelVC = vclock{}
				}
				ms.rrelVC.join(m.race.release(fr.th))
			}
			ms.readers--
			return nil
		},
		"(*sync.WaitGroup).Add": func(fr *frame, a []value) value {
			m := fr.m()
			w := m.wg(a[0].(*value))
			d := m.concretize(bvOf(a[1]), "WaitGroup.Add")
			if d < 0 && m.race != nil {
				if w.relVC == nil {
					w.relVC = vclock{}
				}
				w.relVC.join(m.race.release(fr.th))
			}
			w.n += d
			if w.n < 0 {
				panic(targetPanic{iface{t: types.Typ[types.String], v: "sync: negative WaitGroup counter"}})
			}
			return nil
		},
		"(*sync.WaitGroup).Done": func(fr *frame, a []value) value {
			m := fr.m()
			w := m.wg(a[0].(*value))
			if m.race != nil {
				if w.relVC == nil {
					w.relVC = vclock{}
				}
				w.relVC.join(m.race.release(fr.th))
			}
			w.n--
			if w.n < 0 {
				panic(targetPanic{iface{t: types.Typ[types.String], v: "sync: negative WaitGroup counter"}})
			}
			return nil
		},
		"(*sync.WaitGroup).Wait": func(fr *frame, a []value) value {
			m := fr.m()
			w := m.wg(a[0].(*value))
			m.sched(fr.th, "WaitGroup.Wait", func() bool { return w.n == 0 })
			if m.race != nil {
				m.race.acquire(fr.th, w.relVC)
			}
			return nil
		},
		"(*sync.Pool).Get": func(fr *frame, a []value) value {
			m := fr.m()
			p := a[0].(*value)
			items := m.pools[p]
			newFn := (*p).(structure)[fieldIndex(recvStruct(fr), "New")]
			callNew := func() value {
				if isNil(newFn) {
					return iface{}
				}
				return call(fr.th, fr, fr.fn.Pos(), newFn, nil)
			}
			take := func(i int) value {
				v := items[i]
				m.pools[p] = append(append([]value{}, items[:i]...), items[i+1:]...)
				if m.race != nil {
					// sync.Pool: a Put happens before the Get that returns the same object
					vcs := m.poolVC[p]
					if i < len(vcs) {
						m.race.acquire(fr.th, vcs[i])
						m.poolVC[p] = append(append([]vclock{}, vcs[:i]...), vcs[i+1:]...)
					}
				}
				return v
			}
			switch m.poolMode {
			case 0:
				return callNew()
			case 1:
				if len(items) == 0 {
					return callNew()
				}
				return take(len(items) - 1)
			default:
				c := m.choose(len(items)+1, 'c')
				if c == 0 {
					return callNew()
				}
				return take(c - 1)
			}
		},
		"(*sync.Pool).Put": func(fr *frame, a []value) value {
			m := fr.m()
			p := a[0].(*value)
			if m.poolMode == 0 {
				return nil
			}
			if isNil(a[1]) {
				return nil
			}
			m.pools[p] = append(m.pools[p], a[1])
			if m.race != nil {
				for len(m.poolVC[p]) < len(m.pools[p])-1 {
					m.poolVC[p] = append(m.poolVC[p], nil)
				}
				m.poolVC[p] = append(m.poolVC[p], m.race.release(fr.th))
			}
			return nil
		},

		// ---- runtime ----
		"runtime.GOMAXPROCS": func(fr *frame, a []value) value { return mkBV(64, uint64(fr.m().eng.procs)) },
		"runtime.NumCPU":     func(fr *frame, a []value) value { return mkBV(64, uint64(fr.m().eng.procs)) },
		"runtime.Gosched": func(fr *frame, a []value) value {
			m := fr.m()
			th := fr.th
			// a spinning thread: somebody else runs if anybody can
			m.sched(th, "Gosched", func() bool { return !m.othersEnabledExcludingSpin(th) })
			return nil
		},
		"runtime.Goexit":      func(fr *frame, a []value) value { panic(goexitSignal{}) },
		"runtime/debug.Stack": func(fr *frame, a []value) value { return []value{} },
		"runtime.KeepAlive":   func(fr *frame, a []value) value { return nil },

		// ---- time ----
		"time.Now": func(fr *frame, a []value) value { return timeVal(fr.m().clock) },
		"time.Since": func(fr *frame, a []value) value {
			return mkBin("bvsub", fr.m().clock, timeNs(a[0]))
		},
		"time.Unix": func(fr *frame, a []value) value {
			sec, ns := bvOf(a[0]), bvOf(a[1])
			return timeVal(mkBin("bvadd", mkBin("bvmul", sec, mkBV(64, 1000000000)), ns))
		},
		"(time.Time).Sub":      func(fr *frame, a []value) value { return mkBin("bvsub", timeNs(a[0]), timeNs(a[1])) },
		"(time.Time).Add":      func(fr *frame, a []value) value { return timeVal(mkBin("bvadd", timeNs(a[0]), bvOf(a[1]))) },
		"(time.Time).After":    func(fr *frame, a []value) value { return mkCmp("bvslt", timeNs(a[1]), timeNs(a[0])) },
		"(time.Time).Before":   func(fr *frame, a []value) value { return mkCmp("bvslt", timeNs(a[0]), timeNs(a[1])) },
		"(time.Time).Equal":    func(fr *frame, a []value) value { return mkEq(timeNs(a[0]), timeNs(a[1])) },
		"(time.Time).UnixNano": func(fr *frame, a []value) value { return timeNs(a[0]) },
		"(time.Time).IsZero":   func(fr *frame, a []value) value { return mkEq(timeNs(a[0]), mkBV(64, 0)) },
		"time.Sleep": func(fr *frame, a []value) value {
			fr.m().sched(fr.th, "Sleep", func() bool { return true })
			return nil
		},
		"time.NewTicker": func(fr *frame, a []value) value {
			m := fr.m()
			tt := fr.fn.Signature.Results().At(0).Type()
			cell := zero(derefT(tt))
			ch := m.newChan(1)
			cell.(structure)[fieldIndex(derefT(tt), "C")] = ch
			p := new(value)
			*p = cell
			m.tickers = append(m.tickers, &tickerState{ch: ch, cell: p})
			return p
		},
		"(*time.Ticker).Stop": func(fr *frame, a []value) value {
			for _, t := range fr.m().tickers {
				if t.cell == a[0].(*value) {
					t.stopped = true
				}
			}
			return nil
		},
		"(*time.Ticker).Reset": func(fr *frame, a []value) value {
			for _, t := range fr.m().tickers {
				if t.cell == a[0].(*value) {
					t.stopped = false
				}
			}
			return nil
		},

		// ---- context ----
		"context.Background": func(fr *frame, a []value) value {
			return iface{t: fr.m().eng.ctxType, v: &ctxObj{}}
		},
		"context.TODO": func(fr *frame, a []value) value {
			return iface{t: fr.m().eng.ctxType, v: &ctxObj{}}
		},
		"context.WithCancel": func(fr *frame, a []value) value {
			m := fr.m()
			c := &ctxObj{done: m.newChan(0)}
			cancel := &intrinsicFn{name: "cancel", fn: func(fr *frame, _ []value) value {
				if !c.done.closed {
					fr.m().chanClose(fr.th, c.done)
					c.canceled = true
				}
				return nil
			}}
			return tuple{iface{t: m.eng.ctxType, v: c}, cancel}
		},

		// ---- errors / fmt ----
		"errors.Is": func(fr *frame, a []value) value {
			return equals(a[0], a[1])
		},
		"errors.As": func(fr *frame, a []value) value {
			err := a[0].(iface)
			tgt := a[1].(iface)
			if err.t == nil {
				return falseT
			}
			et := derefT(tgt.t)
			ok := false
			if it, isI := et.Underlying().(*types.Interface); isI {
				ok = types.Implements(err.t, it)
			} else {
				ok = types.Identical(err.t, et)
			}
			if !ok {
				return falseT
			}
			p := tgt.v.(*value)
			if _, isI := et.Underlying().(*types.Interface); isI {
				*p = err
			} else {
				*p = err.v
			}
			return trueT
		},
		"fmt.Sprintf": func(fr *frame, a []value) value { return "" },
		"fmt.Sprint":  func(fr *frame, a []value) value { return "" },
		"fmt.Errorf":  func(fr *frame, a []value) value { return errIface(fr.m(), "fmt.Errorf") },
		"fmt.Println": func(fr *frame, a []value) value { return tuple{mkBV(64, 0), iface{}} },
		"fmt.Printf":  func(fr *frame, a []value) value { return tuple{mkBV(64, 0), iface{}} },
		"bytes.IndexByte": func(fr *frame, a []value) value {
			m := fr.m()
			s := a[0].([]value)
			c := m.concretize(bvOf(a[1]), "IndexByte")
			for i, b := range s {
				if m.concretize(bvOf(b), "IndexByte") == c {
					return mkBV(64, uint64(i))
				}
			}
			return mkBV(64, ^uint64(0))
		},

		// ---- math ----
		"math.Abs": func(fr *frame, a []value) value { return mkFPAbs(bvOf(a[0])) },
		"math.Log": func(fr *frame, a []value) value {
			t := bvOf(a[0])
			if !t.isC {
				unsupported("math.Log of a symbolic value")
			}
			return mkFP(64, math.Log(t.f))
		},
		"math.Float32bits": func(fr *frame, a []value) value {
			t := bvOf(a[0])
			if !t.isC {
				unsupported("math.Float32bits of a symbolic value")
			}
			return mkBV(32, uint64(math.Float32bits(float32(t.f))))
		},
		"math.Float64bits": func(fr *frame, a []value) value {
			t := bvOf(a[0])
			if !t.isC {
				unsupported("math.Float64bits of a symbolic value")
			}
			return mkBV(64, math.Float64bits(t.f))
		},
		"math.Float32frombits": func(fr *frame, a []value) value {
			t := bvOf(a[0])
			if !t.isC {
				unsupported("math.Float32frombits of a symbolic value")
			}
			return mkFP(32, float64(math.Float32frombits(uint32(t.c))))
		},
		"math.Float64frombits": func(fr *frame, a []value) value {
			t := bvOf(a[0])
			if !t.isC {
				unsupported("math.Float64frombits of a symbolic value")
			}
			return mkFP(64, math.Float64frombits(t.c))
		},
		"math/bits.OnesCount64": func(fr *frame, a []value) value { return mkPopcount64(bvOf(a[0])) },
		"math/bits.TrailingZeros": func(fr *frame, a []value) value {
			t := bvOf(a[0])
			if !t.isC {
				unsupported("TrailingZeros of a symbolic value")
			}
			return mkBV(64, uint64(bits.TrailingZeros64(t.c)|0))
		},
		"math/bits.TrailingZeros64": func(fr *frame, a []value) value {
			t := bvOf(a[0])
			if !t.isC {
				unsupported("TrailingZeros64 of a symbolic value")
			}
			return mkBV(64, uint64(bits.TrailingZeros64(t.c)))
		},
		"math/bits.Len64": func(fr *frame, a []value) value {
			t := bvOf(a[0])
			if !t.isC {
				unsupported("Len64 of a symbolic value")
			}
			return mkBV(64, uint64(bits.Len64(t.c)))
		},

		// ---- randomness ----
		"math/rand/v2.Uint32": func(fr *frame, a []value) value { return fr.m().fresh("rand.Uint32", BV(32)) },
		"math/rand.Uint32":    func(fr *frame, a []value) value { return fr.m().fresh("rand.Uint32", BV(32)) },
		"math/rand.NewSource": func(fr *frame, a []value) value { return iface{} },
		"math/rand.New": func(fr *frame, a []value) value {
			p := new(value)
			*p = structure{}
			return p
		},
		"(*math/rand.Rand).Float32": func(fr *frame, a []value) value {
			m := fr.m()
			f := m.fresh("rand.Float32", FP(32))
			if !f.isC {
				m.addPC(mkAnd(mkFPCmp("fp.geq", f, mkFP(32, 0)), mkFPCmp("fp.lt", f, mkFP(32, 1))))
			}
			return f
		},

		// ---- hashing ----
		"github.com/zeebo/xxh3.HashString": func(fr *frame, a []value) value { return fr.hashString(a[0]) },
		"github.com/zeebo/xxh3.Hash": func(fr *frame, a []value) value {
			return fr.hashBytes(a[0])
		},

		// ---- repo: ideal reader/writer lock for RBMutex (Store-level harnesses) ----
		"(*" + repoInternal + ".RBMutex).RLock": func(fr *frame, a []value) value {
			m := fr.m()
			if !m.idealRB {
				return interpretBody(fr, a)
			}
			rw := &(*a[0].(*value)).(structure)[fieldIndex(recvStruct(fr), "rw")]
			intrinsics["(*sync.RWMutex).RLock"](fr, []value{rw})
			return (*value)(nil)
		},
		"(*" + repoInternal + ".RBMutex).Lock": func(fr *frame, a []value) value {
			m := fr.m()
			if !m.idealRB {
				return interpretBody(fr, a)
			}
			rw := &(*a[0].(*value)).(structure)[fieldIndex(recvStruct(fr), "rw")]
			intrinsics["(*sync.RWMutex).Lock"](fr, []value{rw})
			return nil
		},
	}
}

// interpretBody runs the real SSA body of fr.fn (used by switchable intrinsics).
func interpretBody(fr *frame, args []value) value {
	fn := fr.fn
	th := fr.th
	th.depth++
	defer func() { th.depth-- }()
	fr.env = make(map[ssa.Value]value, 16)
	fr.block = fn.Blocks[0]
	fr.locals = make([]value, len(fn.Locals))
	for i, l := range fn.Locals {
		fr.locals[i] = zero(derefT(l.Type()))
		fr.env[l] = &fr.locals[i]
	}
	for i, p := range fn.Params {
		fr.env[p] = args[i]
	}
	for fr.block != nil {
		runFrame(fr)
	}
	return fr.result
}

func (m *machine) othersEnabledExcludingSpin(th *thread) bool {
	for _, t := range m.threads {
		if t != th && !t.done && t.what != "Gosched" && m.enabled(t) {
			return true
		}
	}
	return false
}

func (m *machine) mutex(p *value) *mutexState {
	if p == nil {
		panic(m.runtimeError("nil mutex"))
	}
	ms := m.mutexes[p]
	if ms == nil {
		ms = &mutexState{}
		m.mutexes[p] = ms
	}
	return ms
}

func (m *machine) wg(p *value) *wgState {
	w := m.wgs[p]
	if w == nil {
		w = &wgState{}
		m.wgs[p] = w
	}
	return w
}

// ---- time ----

func timeVal(ns *Term) value {
	return structure{mkBV(64, 0), ns, (*value)(nil)}
}

func timeNs(v value) *Term {
	return v.(structure)[1].(*Term)
}

// ---- context ----

type ctxObj struct {
	done     *chanObj
	canceled bool
}

func (c *ctxObj) invoke(fr *frame, method string, args []value) value {
	switch method {
	case "Done":
		if c.done == nil {
			return (*chanObj)(nil)
		}
		return c.done
	case "Err":
		if c.canceled {
			return errIface(fr.m(), "context canceled")
		}
		return iface{}
	case "Value":
		return iface{}
	case "Deadline":
		return tuple{timeVal(mkBV(64, 0)), falseT}
	}
	panic(engineError{"context method " + method})
}

// ---- hashing ----

func (fr *frame) hashString(s value) value {
	m := fr.m()
	switch s := s.(type) {
	case string:
		if m.hashMode == 1 {
			return mkBV(64, concreteStrHash(s))
		}
		// uninterpreted over the concrete bytes: one UF application per distinct string
		h := concreteStrHash(s)
		return m.uf("xxh3_str", BV(64), mkBV(64, uint64(len(s))), mkBV(64, h))
	case memString:
		words := fr.memImageWords(s)
		if m.hashMode == 1 {
			h := uint64(0x5bd1e995)
			for i, w := range words {
				if !w.isC {
					unsupported("concrete hash mode with symbolic key")
				}
				if i == 0 {
					h = mix64(w.c ^ h)
				} else {
					h = mix64(h ^ w.c)
				}
			}
			return mkBV(64, h)
		}
		return m.uf(fmt.Sprintf("xxh3_%d", s.n), BV(64), words...)
	}
	panic(engineError{fmt.Sprintf("xxh3.HashString of %T", s)})
}

func concreteStrHash(s string) uint64 {
	h := uint64(1469598103934665603)
	for i := 0; i < len(s); i++ {
		h ^= uint64(s[i])
		h *= 1099511628211
	}
	return mix64(h)
}

func (fr *frame) hashBytes(b value) value {
	m := fr.m()
	if g, ok := b.(*ghostBytes); ok {
		if g == nil {
			return mkBV(64, 0)
		}
		return g.sum(m)
	}
	sl, _ := b.([]value)
	h := uint64(1469598103934665603)
	for _, e := range sl {
		h ^= uint64(m.concretize(bvOf(e), "xxh3.Hash"))
		h *= 1099511628211
	}
	return mkBV(64, mix64(h))
}

// memImage returns the n-byte memory image at p as a single BV64 term (n <= 8), little endian,
// for key types whose layout the executor can model exactly.
// memImageWords is memImage for keys of any width: the image as little-endian 64-bit words. A string inside
// the key contributes its header: the address of its bytes (an arbitrary value per occurrence: equal strings
// need not share their backing array) and its length.
func (fr *frame) memImageWords(s memString) []*Term {
	if s.ptr == nil {
		panic(fr.m().runtimeError("nil key pointer"))
	}
	var parts []*Term
	total := 0
	wide := false
	var flatten func(v value)
	flatten = func(v value) {
		switch v := v.(type) {
		case *Term:
			switch v.sort.K {
			case SBool:
				parts = append(parts, mkBool2BV(v, 8))
				total += 8
			case SBV:
				parts = append(parts, v)
				total += v.sort.W
			default:
				unsupported("hashing a key with float fields")
			}
		case structure:
			for _, f := range v {
				flatten(f)
			}
		case array:
			for _, f := range v {
				flatten(f)
			}
		case *value:
			parts = append(parts, fr.m().addrOf(v))
			total += 64
		case string:
			wide = true
			parts = append(parts, fr.m().fresh("stringDataAddr", BV(64)), mkBV(64, uint64(len(v))))
			total += 128
		default:
			unsupported("hashing a key containing %T", v)
		}
	}
	flatten(*s.ptr)
	if total <= 64 && !wide {
		return []*Term{fr.memImage(s)}
	}
	if int64(total) != s.n*8 {
		// (padding between fields is not modelled: only exactly covered keys are accepted here)
		if int64(total) < s.n*8 {
			fr.m().violationNow("hasher-reads-inside-the-key", fmt.Sprintf("hasher reads %d bytes of a %d-byte key", s.n, total/8))
			fr.m().endPath("violation")
		}
		unsupported("prefix read of a key wider than 8 bytes")
	}
	var words []*Term
	cur := mkBV(64, 0)
	sh := 0
	for _, p := range parts {
		if sh+p.sort.W > 64 {
			unsupported("key field straddling a word boundary")
		}
		cur = mkBin("bvor", cur, mkBin("bvshl", mkZext(p, 64), mkBV(64, uint64(sh))))
		sh += p.sort.W
		if sh == 64 {
			words = append(words, cur)
			cur, sh = mkBV(64, 0), 0
		}
	}
	if sh > 0 {
		words = append(words, cur)
	}
	return words
}

func (fr *frame) memImage(s memString) *Term {
	if s.ptr == nil {
		panic(fr.m().runtimeError("nil key pointer"))
	}
	var parts []*Term // little-endian pieces
	total := 0
	var flatten func(v value)
	flatten = func(v value) {
		switch v := v.(type) {
		case *Term:
			switch v.sort.K {
			case SBool:
				parts = append(parts, mkBool2BV(v, 8))
				total += 8
			case SBV:
				parts = append(parts, v)
				total += v.sort.W
			default:
				unsupported("hashing a key with float fields")
			}
		case structure:
			for _, f := range v {
				flatten(f)
			}
		case array:
			for _, f := range v {
				flatten(f)
			}
		case *value:
			// pointer key: identity as an opaque address
			parts = append(parts, fr.m().addrOf(v))
			total += 64
		default:
			unsupported("hashing a key containing %T", v)
		}
	}
	flatten(*s.ptr)
	if int64(total) < s.n*8 {
		// the hasher reads beyond the key object
		fr.m().violationNow("hasher-reads-inside-the-key", fmt.Sprintf("hasher reads %d bytes of a %d-byte key", s.n, total/8))
		fr.m().endPath("violation")
	}
	if total > 64 {
		unsupported("keys wider than 8 bytes")
	}
	var img *Term = mkBV(64, 0)
	sh := 0
	for _, p := range parts {
		img = mkBin("bvor", img, mkBin("bvshl", mkZext(p, 64), mkBV(64, uint64(sh))))
		sh += p.sort.W
	}
	if int64(total) > s.n*8 {
		// only a prefix of the key is read (little endian: the low bytes)
		if s.n <= 0 {
			return mkBV(64, 0)
		}
		img = mkBin("bvand", img, mkBV(64, mask(int(s.n*8))))
	}
	return img
}

func (m *machine) addrOf(p *value) *Term {
	if p == nil {
		return mkBV(64, 0)
	}
	if a, ok := m.addrs[p]; ok {
		return mkBV(64, a)
	}
	a := uint64(0xc000000000 + 64*uint64(len(m.addrs)+1))
	m.addrs[p] = a
	return mkBV(64, a)
}

// ---- sync/atomic ----

func atomicIntrinsic(name string) intrinsic {
	kinds := []string{"Int32", "Int64", "Uint32", "Uint64", "Uintptr", "Pointer"}
	for _, op := range []string{"CompareAndSwap", "Load", "Store", "Add", "Swap", "And", "Or"} {
		if !strings.HasPrefix(name, op) {
			continue
		}
		k := strings.TrimPrefix(name, op)
		ok := false
		for _, kk := range kinds {
			if kk == k {
				ok = true
			}
		}
		if !ok {
			return nil
		}
		op := op
		return func(fr *frame, a []value) value {
			m := fr.m()
			th := fr.th
			if m.atomVisible {
				m.sched(th, "atomic."+name, func() bool { return true })
			}
			p := a[0]
			if pp, ok := p.(*value); ok {
				if pp == nil {
					panic(m.runtimeError("nil pointer in atomic op"))
				}
				if m.race != nil {
					m.race.access(th, pp, op != "Load", true)
				}
			}
			ld := func() value {
				switch p := p.(type) {
				case *value:
					return *p
				case symPtr:
					return mkSelect(p.b.arr, p.idx)
				}
				panic(engineError{"atomic on bad pointer"})
			}
			st := func(v value) {
				switch p := p.(type) {
				case *value:
					*p = v
				case symPtr:
					p.b.arr = mkStore(p.b.arr, p.idx, v.(*Term))
				}
			}
			switch op {
			case "Load":
				return ld()
			case "Store":
				st(a[1])
				return nil
			case "Swap":
				old := ld()
				st(a[1])
				return old
			case "Add":
				nv := mkBin("bvadd", ld().(*Term), a[1].(*Term))
				st(nv)
				return nv
			case "And":
				old := ld().(*Term)
				st(mkBin("bvand", old, a[1].(*Term)))
				return old
			case "Or":
				old := ld().(*Term)
				st(mkBin("bvor", old, a[1].(*Term)))
				return old
			case "CompareAndSwap":
				cur := ld()
				if m.branch(equals(cur, a[1])) {
					st(a[2])
					return trueT
				}
				return falseT
			}
			return nil
		}
	}
	return nil
}
