package main

// A small model of package reflect: reflect.TypeOf and the structural queries on reflect.Type that key-kind
// detection code uses (Kind, Elem, NumField, Field, Len, Key, Size, String, Name, Comparable). The type handle
// wraps the go/types type of the value's static-to-dynamic type as the executor knows it.

import (
	"fmt"
	"go/types"
)

type rtypeObj struct{ t types.Type }

func reflectKind(t types.Type) uint64 {
	switch u := t.Underlying().(type) {
	case *types.Basic:
		switch u.Kind() {
		case types.Bool:
			return 1
		case types.Int:
			return 2
		case types.Int8:
			return 3
		case types.Int16:
			return 4
		case types.Int32:
			return 5
		case types.Int64:
			return 6
		case types.Uint:
			return 7
		case types.Uint8:
			return 8
		case types.Uint16:
			return 9
		case types.Uint32:
			return 10
		case types.Uint64:
			return 11
		case types.Uintptr:
			return 12
		case types.Float32:
			return 13
		case types.Float64:
			return 14
		case types.Complex64:
			return 15
		case types.Complex128:
			return 16
		case types.String:
			return 24
		case types.UnsafePointer:
			return 26
		}
	case *types.Array:
		return 17
	case *types.Chan:
		return 18
	case *types.Signature:
		return 19
	case *types.Interface:
		return 20
	case *types.Map:
		return 21
	case *types.Pointer:
		return 22
	case *types.Slice:
		return 23
	case *types.Struct:
		return 25
	}
	return 0
}

func (fr *frame) rtypeIface(t types.Type) value {
	ph := types.Type(types.Typ[types.UnsafePointer])
	if rp := fr.m().eng.prog.ImportedPackage("reflect"); rp != nil {
		if o := rp.Pkg.Scope().Lookup("rtype"); o != nil {
			ph = types.NewPointer(o.Type())
		}
	}
	return iface{t: ph, v: rtypeObj{t}}
}

func (r rtypeObj) invoke(fr *frame, method string, args []value) value {
	switch method {
	case "Kind":
		return mkBV(64, reflectKind(r.t))
	case "String", "Name":
		return r.t.String()
	case "Comparable":
		return mkBool(types.Comparable(r.t))
	case "Size":
		return mkBV(64, uint64(types.SizesFor("gc", "amd64").Sizeof(r.t)))
	case "Elem":
		switch u := r.t.Underlying().(type) {
		case *types.Pointer:
			return fr.rtypeIface(u.Elem())
		case *types.Array:
			return fr.rtypeIface(u.Elem())
		case *types.Slice:
			return fr.rtypeIface(u.Elem())
		case *types.Chan:
			return fr.rtypeIface(u.Elem())
		case *types.Map:
			return fr.rtypeIface(u.Elem())
		}
		panic(fr.m().runtimeError("reflect: Elem of invalid type " + r.t.String()))
	case "Key":
		if u, ok := r.t.Underlying().(*types.Map); ok {
			return fr.rtypeIface(u.Key())
		}
		panic(fr.m().runtimeError("reflect: Key of non-map type " + r.t.String()))
	case "Len":
		if u, ok := r.t.Underlying().(*types.Array); ok {
			return mkBV(64, uint64(u.Len()))
		}
		panic(fr.m().runtimeError("reflect: Len of non-array type " + r.t.String()))
	case "NumField":
		if u, ok := r.t.Underlying().(*types.Struct); ok {
			return mkBV(64, uint64(u.NumFields()))
		}
		panic(fr.m().runtimeError("reflect: NumField of non-struct type " + r.t.String()))
	case "Field":
		u, ok := r.t.Underlying().(*types.Struct)
		if !ok {
			panic(fr.m().runtimeError("reflect: Field of non-struct type " + r.t.String()))
		}
		it, ok2 := args[0].(*Term)
		if !ok2 || !it.isC {
			unsupported("reflect.Type.Field with a symbolic index")
		}
		i := int(it.Int())
		if i < 0 || i >= u.NumFields() {
			panic(fr.m().runtimeError("reflect: Field index out of bounds"))
		}
		rp := fr.m().eng.prog.ImportedPackage("reflect")
		if rp == nil {
			unsupported("package reflect not loaded")
		}
		sfT := rp.Pkg.Scope().Lookup("StructField").Type()
		sf := zero(sfT).(structure)
		st := sfT.Underlying().(*types.Struct)
		for k := 0; k < st.NumFields(); k++ {
			switch st.Field(k).Name() {
			case "Name":
				sf[k] = u.Field(i).Name()
			case "Type":
				sf[k] = fr.rtypeIface(u.Field(i).Type())
			case "Anonymous":
				sf[k] = mkBool(u.Field(i).Embedded())
			}
		}
		return sf
	}
	unsupported("reflect.Type.%s", method)
	return nil
}

func registerReflect() {
	intrinsics["reflect.TypeOf"] = func(fr *frame, a []value) value {
		itf, ok := a[0].(iface)
		if !ok {
			panic(engineError{fmt.Sprintf("reflect.TypeOf of %T", a[0])})
		}
		if itf.t == nil {
			return iface{}
		}
		return fr.rtypeIface(itf.t)
	}
}
