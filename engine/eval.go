package main

// Concrete evaluation of bit-vector/Bool terms under a solver model, used to avoid feasibility queries:
// a model of the current path condition tells which side of a branch is certainly feasible.

func (m *machine) setModel(vals []ModelVal) {
	// vals correspond to m.vars (prefix of the want list)
	if len(vals) < len(m.vars) {
		m.model = nil
		return
	}
	mod := make(map[string]uint64, len(m.vars))
	for i, v := range m.vars {
		mod[v.name] = vals[i].Bits
	}
	m.model = mod
	m.evalCache = map[*Term]uint64{}
}

func (m *machine) dropModel() {
	m.model = nil
	m.evalCache = nil
}

// eval returns the value of t under the current model; ok=false if there is no model or t is not evaluable.
func (m *machine) eval(t *Term) (uint64, bool) {
	if m.model == nil {
		return 0, false
	}
	return m.evalRec(t, 0)
}

func (m *machine) evalRec(t *Term, depth int) (uint64, bool) {
	if t.isC {
		if t.sort.K == SFP {
			return 0, false
		}
		return t.c, true
	}
	if v, ok := m.evalCache[t]; ok {
		return v, true
	}
	if depth > 2000 {
		return 0, false
	}
	var res uint64
	switch t.op {
	case "var":
		if t.sort.K == SFP || t.sort.K == SArr {
			return 0, false
		}
		v, ok := m.model[t.name]
		if !ok {
			// created after the model was obtained: unconstrained so far, any value extends the model
			v = 0
			m.model[t.name] = 0
		}
		res = v
	case "not":
		a, ok := m.evalRec(t.args[0], depth+1)
		if !ok {
			return 0, false
		}
		res = a ^ 1
	case "and", "or":
		a, ok := m.evalRec(t.args[0], depth+1)
		if !ok {
			return 0, false
		}
		b, ok := m.evalRec(t.args[1], depth+1)
		if !ok {
			return 0, false
		}
		if t.op == "and" {
			res = a & b
		} else {
			res = a | b
		}
	case "ite":
		c, ok := m.evalRec(t.args[0], depth+1)
		if !ok {
			return 0, false
		}
		if c == 1 {
			res, ok = m.evalRec(t.args[1], depth+1)
		} else {
			res, ok = m.evalRec(t.args[2], depth+1)
		}
		if !ok {
			return 0, false
		}
	case "=":
		if t.args[0].sort.K == SFP || t.args[0].sort.K == SArr {
			return 0, false
		}
		a, ok := m.evalRec(t.args[0], depth+1)
		if !ok {
			return 0, false
		}
		b, ok := m.evalRec(t.args[1], depth+1)
		if !ok {
			return 0, false
		}
		if a == b {
			res = 1
		}
	case "bvult", "bvule", "bvslt", "bvsle":
		a, ok := m.evalRec(t.args[0], depth+1)
		if !ok {
			return 0, false
		}
		b, ok := m.evalRec(t.args[1], depth+1)
		if !ok {
			return 0, false
		}
		w := t.args[0].sort.W
		var r bool
		switch t.op {
		case "bvult":
			r = a < b
		case "bvule":
			r = a <= b
		case "bvslt":
			r = signExt(a, w) < signExt(b, w)
		case "bvsle":
			r = signExt(a, w) <= signExt(b, w)
		}
		if r {
			res = 1
		}
	case "bvnot":
		a, ok := m.evalRec(t.args[0], depth+1)
		if !ok {
			return 0, false
		}
		res = ^a & mask(t.sort.W)
	case "bvneg":
		a, ok := m.evalRec(t.args[0], depth+1)
		if !ok {
			return 0, false
		}
		res = (-a) & mask(t.sort.W)
	case "extract":
		a, ok := m.evalRec(t.args[0], depth+1)
		if !ok {
			return 0, false
		}
		res = (a >> uint(t.p2)) & mask(t.sort.W)
	case "zero_extend":
		a, ok := m.evalRec(t.args[0], depth+1)
		if !ok {
			return 0, false
		}
		res = a
	case "sign_extend":
		a, ok := m.evalRec(t.args[0], depth+1)
		if !ok {
			return 0, false
		}
		res = uint64(signExt(a, t.args[0].sort.W)) & mask(t.sort.W)
	default:
		if len(t.args) == 2 && t.sort.K == SBV && t.args[0].sort.K == SBV {
			a, ok := m.evalRec(t.args[0], depth+1)
			if !ok {
				return 0, false
			}
			b, ok := m.evalRec(t.args[1], depth+1)
			if !ok {
				return 0, false
			}
			v, ok := foldBV(t.op, t.sort.W, a, b)
			if !ok {
				return 0, false
			}
			res = v
		} else {
			return 0, false
		}
	}
	m.evalCache[t] = res
	return res, true
}
