package main

// SMT term DAG with constant folding. Every Go scalar in the executor is a *Term.
// Sorts: Bool, BitVec(8|16|32|64), FP(32|64), Array (BV64 -> BV64).

import (
	"fmt"
	"math"
	"math/bits"
	"strings"
	"sync/atomic"
)

type SortKind uint8

const (
	SBool SortKind = iota
	SBV
	SFP
	SArr
)

type Sort struct {
	K SortKind
	W int
}

var (
	BoolSort = Sort{SBool, 1}
	ArrSort  = Sort{SArr, 64}
)

func BV(w int) Sort { return Sort{SBV, w} }
func FP(w int) Sort { return Sort{SFP, w} }

func (s Sort) SMT() string {
	switch s.K {
	case SBool:
		return "Bool"
	case SBV:
		return fmt.Sprintf("(_ BitVec %d)", s.W)
	case SFP:
		if s.W == 32 {
			return "(_ FloatingPoint 8 24)"
		}
		return "(_ FloatingPoint 11 53)"
	case SArr:
		return "(Array (_ BitVec 64) (_ BitVec 64))"
	}
	panic("bad sort")
}

type Term struct {
	op    string // SMT-LIB operator, or "const", "var", "uf:<name>", "constarr"
	sort  Sort
	args  []*Term
	c     uint64  // constant value for BV/Bool consts (Bool: 0/1)
	f     float64 // constant value for FP consts
	name  string  // var name
	p1    int     // parameters (extract hi / extend amount)
	p2    int
	id    int64
	isC   bool
	depth int
}

var termCounter int64

func newTerm(op string, s Sort, args ...*Term) *Term {
	t := &Term{op: op, sort: s, args: args, id: atomic.AddInt64(&termCounter, 1)}
	return t
}

func mask(w int) uint64 {
	if w >= 64 {
		return ^uint64(0)
	}
	return (uint64(1) << uint(w)) - 1
}

func signExt(v uint64, w int) int64 {
	if w >= 64 {
		return int64(v)
	}
	sh := uint(64 - w)
	return int64(v<<sh) >> sh
}

var (
	trueT  = &Term{op: "const", sort: BoolSort, c: 1, isC: true, id: -1}
	falseT = &Term{op: "const", sort: BoolSort, c: 0, isC: true, id: -2}
)

func mkBool(b bool) *Term {
	if b {
		return trueT
	}
	return falseT
}

func mkBV(w int, v uint64) *Term {
	return &Term{op: "const", sort: BV(w), c: v & mask(w), isC: true}
}

func mkFP(w int, f float64) *Term {
	if w == 32 {
		f = float64(float32(f))
	}
	return &Term{op: "const", sort: FP(w), f: f, isC: true}
}

func mkVar(name string, s Sort) *Term {
	t := newTerm("var", s)
	t.name = name
	return t
}

func (t *Term) IsConst() bool { return t.isC }
func (t *Term) IsTrue() bool  { return t.isC && t.sort.K == SBool && t.c == 1 }
func (t *Term) IsFalse() bool { return t.isC && t.sort.K == SBool && t.c == 0 }

// Int returns the constant as a sign-extended int64 (BV consts).
func (t *Term) Int() int64   { return signExt(t.c, t.sort.W) }
func (t *Term) Uint() uint64 { return t.c }

func (t *Term) String() string {
	if t.isC {
		switch t.sort.K {
		case SBool:
			return fmt.Sprint(t.c == 1)
		case SBV:
			return fmt.Sprintf("%d", t.c)
		case SFP:
			return fmt.Sprint(t.f)
		}
	}
	if t.op == "var" {
		return t.name
	}
	if t.depth > 6 {
		return "(" + t.op + " ...)"
	}
	var sb strings.Builder
	sb.WriteString("(" + t.op)
	for _, a := range t.args {
		sb.WriteString(" " + a.String())
	}
	sb.WriteString(")")
	return sb.String()
}

func mk(op string, s Sort, args ...*Term) *Term {
	t := newTerm(op, s, args...)
	d := 0
	for _, a := range args {
		if a.depth > d {
			d = a.depth
		}
	}
	t.depth = d + 1
	return t
}

// ---------- boolean ----------

func mkNot(a *Term) *Term {
	if a.isC {
		return mkBool(a.c == 0)
	}
	if a.op == "not" {
		return a.args[0]
	}
	return mk("not", BoolSort, a)
}

func mkAnd(a, b *Term) *Term {
	if a.isC {
		if a.c == 0 {
			return falseT
		}
		return b
	}
	if b.isC {
		if b.c == 0 {
			return falseT
		}
		return a
	}
	if a == b {
		return a
	}
	return mk("and", BoolSort, a, b)
}

func mkOr(a, b *Term) *Term {
	if a.isC {
		if a.c == 1 {
			return trueT
		}
		return b
	}
	if b.isC {
		if b.c == 1 {
			return trueT
		}
		return a
	}
	if a == b {
		return a
	}
	return mk("or", BoolSort, a, b)
}

func mkImplies(a, b *Term) *Term { return mkOr(mkNot(a), b) }

func mkIte(c, a, b *Term) *Term {
	if c.isC {
		if c.c == 1 {
			return a
		}
		return b
	}
	if a == b {
		return a
	}
	if a.sort.K == SBool && a.isC && b.isC {
		if a.c == 1 && b.c == 0 {
			return c
		}
		if a.c == 0 && b.c == 1 {
			return mkNot(c)
		}
	}
	return mk("ite", a.sort, c, a, b)
}

func mkEq(a, b *Term) *Term {
	if a.sort != b.sort {
		panic(fmt.Sprintf("mkEq sort mismatch %v %v (%s, %s)", a.sort, b.sort, a, b))
	}
	if a == b && a.sort.K != SFP {
		return trueT
	}
	if a.isC && b.isC {
		switch a.sort.K {
		case SFP:
			return mkBool(a.f == b.f)
		default:
			return mkBool(a.c == b.c)
		}
	}
	if a.sort.K == SFP {
		return mk("fp.eq", BoolSort, a, b)
	}
	if a.sort.K == SBool {
		if a.isC {
			if a.c == 1 {
				return b
			}
			return mkNot(b)
		}
		if b.isC {
			if b.c == 1 {
				return a
			}
			return mkNot(a)
		}
	}
	return mk("=", BoolSort, a, b)
}

// ---------- bit-vectors ----------

func foldBV(op string, w int, x, y uint64) (uint64, bool) {
	m := mask(w)
	switch op {
	case "bvadd":
		return (x + y) & m, true
	case "bvsub":
		return (x - y) & m, true
	case "bvmul":
		return (x * y) & m, true
	case "bvand":
		return x & y, true
	case "bvor":
		return x | y, true
	case "bvxor":
		return x ^ y, true
	case "bvudiv":
		if y == 0 {
			return m, true
		}
		return x / y, true
	case "bvurem":
		if y == 0 {
			return x, true
		}
		return x % y, true
	case "bvsdiv":
		sx, sy := signExt(x, w), signExt(y, w)
		if sy == 0 {
			if sx < 0 {
				return 1, true
			}
			return m, true
		}
		if sy == -1 {
			return uint64(-sx) & m, true
		}
		return uint64(sx/sy) & m, true
	case "bvsrem":
		sx, sy := signExt(x, w), signExt(y, w)
		if sy == 0 {
			return x, true
		}
		if sy == -1 {
			return 0, true
		}
		return uint64(sx%sy) & m, true
	case "bvshl":
		if y >= uint64(w) {
			return 0, true
		}
		return (x << y) & m, true
	case "bvlshr":
		if y >= uint64(w) {
			return 0, true
		}
		return x >> y, true
	case "bvashr":
		sx := signExt(x, w)
		if y >= uint64(w) {
			if sx < 0 {
				return m, true
			}
			return 0, true
		}
		return uint64(sx>>y) & m, true
	}
	return 0, false
}

func mkBin(op string, a, b *Term) *Term {
	if a.sort != b.sort || a.sort.K != SBV {
		panic(fmt.Sprintf("mkBin %s sort mismatch %v %v", op, a.sort, b.sort))
	}
	w := a.sort.W
	if a.isC && b.isC {
		if v, ok := foldBV(op, w, a.c, b.c); ok {
			return mkBV(w, v)
		}
	}
	// light algebraic simplification
	switch op {
	case "bvadd", "bvor", "bvxor":
		if a.isC && a.c == 0 {
			return b
		}
		if b.isC && b.c == 0 {
			return a
		}
	case "bvsub", "bvshl", "bvlshr", "bvashr":
		if b.isC && b.c == 0 {
			return a
		}
		if op != "bvsub" && a.isC && a.c == 0 {
			return a
		}
	case "bvand":
		if a.isC && a.c == 0 {
			return a
		}
		if b.isC && b.c == 0 {
			return b
		}
		if a.isC && a.c == mask(w) {
			return b
		}
		if b.isC && b.c == mask(w) {
			return a
		}
	case "bvmul":
		if a.isC && a.c == 1 {
			return b
		}
		if b.isC && b.c == 1 {
			return a
		}
		if (a.isC && a.c == 0) || (b.isC && b.c == 0) {
			return mkBV(w, 0)
		}
	}
	return mk(op, a.sort, a, b)
}

func mkBvNot(a *Term) *Term {
	if a.isC {
		return mkBV(a.sort.W, ^a.c)
	}
	return mk("bvnot", a.sort, a)
}

func mkBvNeg(a *Term) *Term {
	if a.isC {
		return mkBV(a.sort.W, -a.c)
	}
	return mk("bvneg", a.sort, a)
}

func mkCmp(op string, a, b *Term) *Term {
	if a.sort != b.sort {
		panic(fmt.Sprintf("mkCmp %s sort mismatch %v %v", op, a.sort, b.sort))
	}
	if a.isC && b.isC {
		w := a.sort.W
		switch op {
		case "bvult":
			return mkBool(a.c < b.c)
		case "bvule":
			return mkBool(a.c <= b.c)
		case "bvslt":
			return mkBool(signExt(a.c, w) < signExt(b.c, w))
		case "bvsle":
			return mkBool(signExt(a.c, w) <= signExt(b.c, w))
		}
	}
	if a == b {
		return mkBool(op == "bvule" || op == "bvsle")
	}
	return mk(op, BoolSort, a, b)
}

func mkExtract(hi, lo int, a *Term) *Term {
	w := hi - lo + 1
	if lo == 0 && w == a.sort.W {
		return a
	}
	if a.isC {
		return mkBV(w, a.c>>uint(lo))
	}
	t := mk("extract", BV(w), a)
	t.p1, t.p2 = hi, lo
	return t
}

func mkZext(a *Term, to int) *Term {
	if to == a.sort.W {
		return a
	}
	if a.isC {
		return mkBV(to, a.c)
	}
	t := mk("zero_extend", BV(to), a)
	t.p1 = to - a.sort.W
	return t
}

func mkSext(a *Term, to int) *Term {
	if to == a.sort.W {
		return a
	}
	if a.isC {
		return mkBV(to, uint64(signExt(a.c, a.sort.W)))
	}
	t := mk("sign_extend", BV(to), a)
	t.p1 = to - a.sort.W
	return t
}

// resize converts a BV term to width `to`; signed says whether the source is signed.
func mkResize(a *Term, to int, signed bool) *Term {
	switch {
	case to == a.sort.W:
		return a
	case to < a.sort.W:
		return mkExtract(to-1, 0, a)
	case signed:
		return mkSext(a, to)
	default:
		return mkZext(a, to)
	}
}

func mkBool2BV(b *Term, w int) *Term { return mkIte(b, mkBV(w, 1), mkBV(w, 0)) }

// popcount of a 64-bit vector as adder tree.
func mkPopcount64(a *Term) *Term {
	if a.isC {
		return mkBV(64, uint64(bits.OnesCount64(a.c)))
	}
	c := func(v uint64) *Term { return mkBV(64, v) }
	x := a
	x = mkBin("bvsub", x, mkBin("bvand", mkBin("bvlshr", x, c(1)), c(0x5555555555555555)))
	x = mkBin("bvadd", mkBin("bvand", x, c(0x3333333333333333)), mkBin("bvand", mkBin("bvlshr", x, c(2)), c(0x3333333333333333)))
	x = mkBin("bvand", mkBin("bvadd", x, mkBin("bvlshr", x, c(4))), c(0x0f0f0f0f0f0f0f0f))
	x = mkBin("bvlshr", mkBin("bvmul", x, c(0x0101010101010101)), c(56))
	return x
}

// ---------- arrays ----------

func mkConstArr(v *Term) *Term { return mk("constarr", ArrSort, v) }

func mkSelect(arr, idx *Term) *Term {
	// read-over-write simplification with constant indices
	for {
		switch arr.op {
		case "store":
			si := arr.args[1]
			if si == idx || (si.isC && idx.isC && si.c == idx.c) {
				return arr.args[2]
			}
			if si.isC && idx.isC && si.c != idx.c {
				arr = arr.args[0]
				continue
			}
		case "constarr":
			return arr.args[0]
		}
		break
	}
	return mk("select", BV(64), arr, idx)
}

func mkStore(arr, idx, v *Term) *Term {
	if arr.op == "store" && arr.args[1].isC && idx.isC && arr.args[1].c == idx.c {
		arr = arr.args[0]
	}
	return mk("store", ArrSort, arr, idx, v)
}

// ---------- uninterpreted functions ----------

func mkUF(name string, ret Sort, args ...*Term) *Term {
	return mk("uf:"+name, ret, args...)
}

// ---------- floating point ----------

func fpRound(w int, f float64) float64 {
	if w == 32 {
		return float64(float32(f))
	}
	return f
}

func mkFPBin(op string, a, b *Term) *Term {
	w := a.sort.W
	if a.isC && b.isC {
		switch op {
		case "fp.add":
			if w == 32 {
				return mkFP(32, float64(float32(a.f)+float32(b.f)))
			}
			return mkFP(64, a.f+b.f)
		case "fp.sub":
			if w == 32 {
				return mkFP(32, float64(float32(a.f)-float32(b.f)))
			}
			return mkFP(64, a.f-b.f)
		case "fp.mul":
			if w == 32 {
				return mkFP(32, float64(float32(a.f)*float32(b.f)))
			}
			return mkFP(64, a.f*b.f)
		case "fp.div":
			if w == 32 {
				return mkFP(32, float64(float32(a.f)/float32(b.f)))
			}
			return mkFP(64, a.f/b.f)
		}
	}
	return mk(op, a.sort, a, b)
}

func mkFPCmp(op string, a, b *Term) *Term {
	if a.isC && b.isC {
		switch op {
		case "fp.lt":
			return mkBool(a.f < b.f)
		case "fp.leq":
			return mkBool(a.f <= b.f)
		case "fp.gt":
			return mkBool(a.f > b.f)
		case "fp.geq":
			return mkBool(a.f >= b.f)
		case "fp.eq":
			return mkBool(a.f == b.f)
		}
	}
	return mk(op, BoolSort, a, b)
}

func mkFPNeg(a *Term) *Term {
	if a.isC {
		return mkFP(a.sort.W, -a.f)
	}
	return mk("fp.neg", a.sort, a)
}

func mkFPAbs(a *Term) *Term {
	if a.isC {
		return mkFP(a.sort.W, math.Abs(a.f))
	}
	return mk("fp.abs", a.sort, a)
}

// int (BV) -> float
func mkIntToFP(a *Term, signed bool, w int) *Term {
	if a.isC {
		if signed {
			return mkFP(w, fpRound(w, float64(signExt(a.c, a.sort.W))))
		}
		if w == 32 {
			return mkFP(32, float64(float32(a.c)))
		}
		return mkFP(64, float64(a.c))
	}
	op := "to_fp_unsigned"
	if signed {
		op = "to_fp"
	}
	return mk(op, FP(w), a)
}

// float -> int (BV), round toward zero. Out-of-range is checked by the caller.
func mkFPToInt(a *Term, signed bool, w int) *Term {
	if a.isC {
		if signed {
			return mkBV(w, uint64(int64(a.f)))
		}
		return mkBV(w, uint64(a.f))
	}
	op := "fp.to_ubv"
	if signed {
		op = "fp.to_sbv"
	}
	return mk(op, BV(w), a)
}

func mkFPToFP(a *Term, w int) *Term {
	if a.sort.W == w {
		return a
	}
	if a.isC {
		return mkFP(w, a.f)
	}
	return mk("fp.to_fp", FP(w), a)
}

// ---------- serialisation ----------

func quoteSym(s string) string { return "|" + s + "|" }

func bvLit(w int, v uint64) string {
	if w%4 == 0 {
		return fmt.Sprintf("#x%0*x", w/4, v&mask(w))
	}
	return fmt.Sprintf("#b%0*b", w, v&mask(w))
}

func fpLit(w int, f float64) string {
	if w == 32 {
		return fmt.Sprintf("((_ to_fp 8 24) #x%08x)", math.Float32bits(float32(f)))
	}
	return fmt.Sprintf("((_ to_fp 11 53) #x%016x)", math.Float64bits(f))
}

// emitter writes define-funs for each DAG node once.
type emitter struct {
	emitted map[int64]string
	ufs     map[string]bool
	vars    map[string]Sort
	out     *strings.Builder
}

func newEmitter() *emitter {
	return &emitter{emitted: map[int64]string{}, ufs: map[string]bool{}, vars: map[string]Sort{}, out: &strings.Builder{}}
}

// ref returns an SMT-LIB expression referring to t, emitting definitions into e.out as needed.
func (e *emitter) ref(t *Term) string {
	if t.isC {
		switch t.sort.K {
		case SBool:
			if t.c == 1 {
				return "true"
			}
			return "false"
		case SBV:
			return bvLit(t.sort.W, t.c)
		case SFP:
			return fpLit(t.sort.W, t.f)
		}
	}
	if t.op == "var" {
		if _, ok := e.vars[t.name]; !ok {
			e.vars[t.name] = t.sort
			fmt.Fprintf(e.out, "(declare-fun %s () %s)\n", quoteSym(t.name), t.sort.SMT())
		}
		return quoteSym(t.name)
	}
	if n, ok := e.emitted[t.id]; ok {
		return n
	}
	// iterative post-order to avoid deep recursion
	type fr struct {
		t *Term
		i int
	}
	stack := []fr{{t, 0}}
	for len(stack) > 0 {
		top := &stack[len(stack)-1]
		if top.i < len(top.t.args) {
			a := top.t.args[top.i]
			top.i++
			if a.isC || a.op == "var" {
				continue
			}
			if _, ok := e.emitted[a.id]; ok {
				continue
			}
			stack = append(stack, fr{a, 0})
			continue
		}
		cur := top.t
		stack = stack[:len(stack)-1]
		if _, ok := e.emitted[cur.id]; ok {
			continue
		}
		as := make([]string, len(cur.args))
		for i, a := range cur.args {
			as[i] = e.ref(a) // constants/vars/emitted only: no recursion depth
		}
		var body string
		switch {
		case cur.op == "extract":
			body = fmt.Sprintf("((_ extract %d %d) %s)", cur.p1, cur.p2, as[0])
		case cur.op == "zero_extend" || cur.op == "sign_extend":
			body = fmt.Sprintf("((_ %s %d) %s)", cur.op, cur.p1, as[0])
		case cur.op == "constarr":
			body = fmt.Sprintf("((as const %s) %s)", ArrSort.SMT(), as[0])
		case strings.HasPrefix(cur.op, "uf:"):
			name := cur.op[3:]
			if !e.ufs[name] {
				e.ufs[name] = true
				var ss []string
				for _, a := range cur.args {
					ss = append(ss, a.sort.SMT())
				}
				fmt.Fprintf(e.out, "(declare-fun %s (%s) %s)\n", quoteSym(name), strings.Join(ss, " "), cur.sort.SMT())
			}
			body = fmt.Sprintf("(%s %s)", quoteSym(name), strings.Join(as, " "))
		case cur.op == "fp.add" || cur.op == "fp.sub" || cur.op == "fp.mul" || cur.op == "fp.div":
			body = fmt.Sprintf("(%s RNE %s)", cur.op, strings.Join(as, " "))
		case cur.op == "to_fp" || cur.op == "to_fp_unsigned":
			eb, sb := 11, 53
			if cur.sort.W == 32 {
				eb, sb = 8, 24
			}
			body = fmt.Sprintf("((_ %s %d %d) RNE %s)", cur.op, eb, sb, as[0])
		case cur.op == "fp.to_fp":
			eb, sb := 11, 53
			if cur.sort.W == 32 {
				eb, sb = 8, 24
			}
			body = fmt.Sprintf("((_ to_fp %d %d) RNE %s)", eb, sb, as[0])
		case cur.op == "fp.to_sbv" || cur.op == "fp.to_ubv":
			body = fmt.Sprintf("((_ %s %d) RTZ %s)", cur.op, cur.sort.W, as[0])
		default:
			body = fmt.Sprintf("(%s %s)", cur.op, strings.Join(as, " "))
		}
		name := fmt.Sprintf("t!%d", cur.id)
		fmt.Fprintf(e.out, "(define-fun %s () %s %s)\n", name, cur.sort.SMT(), body)
		e.emitted[cur.id] = name
	}
	return e.emitted[t.id]
}
