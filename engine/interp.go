package main

// SSA interpreter over symbolic values. Structure follows golang.org/x/tools/go/ssa/interp
// (BSD licence, The Go Authors), rewritten for SMT-term scalars, controlled threads and
// path exploration by re-execution.

import (
	"fmt"
	"go/constant"
	"go/token"
	"go/types"
	"os"
	"slices"
	"strings"

	"golang.org/x/tools/go/ssa"
)

type continuation int

const (
	kNext continuation = iota
	kReturn
	kJump
)

type deferred struct {
	fn    value
	args  []value
	instr *ssa.Defer
	tail  *deferred
}

type frame struct {
	th               *thread
	caller           *frame
	fn               *ssa.Function
	block, prevBlock *ssa.BasicBlock
	env              map[ssa.Value]value
	locals           []value
	defers           *deferred
	result           value
	panicking        bool
	panic            interface{}
	phitemps         []value
}

// control-flow signals implemented as Go panics
type targetPanic struct{ v value }   // panic() in the target program (or a Go run-time error)
type goexitSignal struct{}           // runtime.Goexit
type pathEnd struct{ reason string } // executor ends this path (assume false, violation, ...)
type threadKilled struct{}           // path is over, unwind this thread
type engineError struct{ msg string }

func isControlSignal(r interface{}) bool {
	switch r.(type) {
	case pathEnd, threadKilled, engineError:
		return true
	}
	return false
}

func unsupported(format string, a ...interface{}) {
	panic(engineError{fmt.Sprintf(format, a...)})
}

func (fr *frame) m() *machine { return fr.th.m }

func (fr *frame) get(key ssa.Value) value {
	switch key := key.(type) {
	case nil:
		return nil
	case *ssa.Function:
		return key
	case *ssa.Builtin:
		return key
	case *ssa.Const:
		return constValue(key)
	case *ssa.Global:
		return fr.m().global(key)
	}
	if r, ok := fr.env[key]; ok {
		return r
	}
	panic(engineError{fmt.Sprintf("get: no value for %T: %v in %s", key, key.Name(), fr.fn)})
}

func constValue(c *ssa.Const) value {
	if c.Value == nil {
		return zero(c.Type())
	}
	t := c.Type().Underlying()
	if b, ok := t.(*types.Basic); ok {
		switch {
		case b.Info()&types.IsBoolean != 0:
			return mkBool(constant.BoolVal(c.Value))
		case b.Info()&types.IsString != 0:
			if c.Value.Kind() == constant.String {
				return constant.StringVal(c.Value)
			}
			return string(rune(c.Int64()))
		case b.Info()&types.IsFloat != 0:
			return mkFP(bitsOf(b), c.Float64())
		case b.Info()&types.IsInteger != 0:
			if b.Info()&types.IsUnsigned != 0 {
				return mkBV(bitsOf(b), c.Uint64())
			}
			return mkBV(bitsOf(b), uint64(c.Int64()))
		case b.Kind() == types.UnsafePointer:
			return (*value)(nil)
		}
	}
	panic(engineError{fmt.Sprintf("constValue: unsupported %v : %v", c, c.Type())})
}

func (m *machine) global(g *ssa.Global) *value {
	if r, ok := m.globals[g]; ok {
		return r
	}
	cell := zero(derefT(g.Type()))
	m.globals[g] = &cell
	return &cell
}

func derefT(t types.Type) types.Type {
	if p, ok := t.Underlying().(*types.Pointer); ok {
		return p.Elem()
	}
	panic(fmt.Sprintf("derefT: not a pointer: %v", t))
}

func (fr *frame) runDefer(d *deferred) {
	var ok bool
	defer func() {
		if !ok {
			r := recover()
			if isControlSignal(r) {
				panic(r)
			}
			fr.panicking = true
			fr.panic = r
		}
	}()
	call(fr.th, fr, d.instr.Pos(), d.fn, d.args)
	ok = true
}

func (fr *frame) runDefers() {
	for d := fr.defers; d != nil; d = d.tail {
		fr.defers = d.tail
		fr.runDefer(d)
	}
	fr.defers = nil
	if fr.panicking {
		panic(fr.panic)
	}
}

func (m *machine) runtimeError(msg string) targetPanic {
	return targetPanic{iface{t: m.eng.runtimeErrorString, v: "runtime error: " + msg}}
}

// load reads a value of type T through pointer p.
func (fr *frame) load(T types.Type, p value) value {
	switch p := p.(type) {
	case *value:
		if p == nil {
			panic(fr.m().runtimeError("invalid memory address or nil pointer dereference"))
		}
		fr.m().onAccess(fr.th, p, false)
		v := *p
		if b, ok := T.Underlying().(*types.Basic); ok && b.Info()&types.IsString != 0 {
			// the hasher reads a fabricated string header {data, len}
			if st, ok := v.(structure); ok && len(st) == 2 {
				if dp, ok := st[0].(*value); ok {
					if n, ok := st[1].(*Term); ok && n.isC {
						return memString{dp, n.Int()}
					}
				}
			}
			if _, ok := v.(string); !ok {
				if _, ok := v.(memString); !ok {
					unsupported("load of string through pointer to %T", v)
				}
			}
		}
		return copyVal(v)
	case symPtr:
		fr.m().noteArrRead(p.b.arr, p.idx)
		return mkSelect(p.b.arr, p.idx)
	}
	panic(engineError{fmt.Sprintf("load through %T", p)})
}

func storeRec(T types.Type, addr *value, v value) {
	switch T := T.Underlying().(type) {
	case *types.Struct:
		lhs, ok1 := (*addr).(structure)
		rhs, ok2 := v.(structure)
		if !ok1 || !ok2 || len(lhs) != len(rhs) {
			*addr = copyVal(v)
			return
		}
		for i := range lhs {
			storeRec(T.Field(i).Type(), &lhs[i], rhs[i])
		}
	case *types.Array:
		lhs, ok1 := (*addr).(array)
		rhs, ok2 := v.(array)
		if !ok1 || !ok2 || len(lhs) != len(rhs) {
			*addr = copyVal(v)
			return
		}
		for i := range lhs {
			storeRec(T.Elem(), &lhs[i], rhs[i])
		}
	default:
		*addr = v
	}
}

func (fr *frame) store(T types.Type, p value, v value) {
	switch p := p.(type) {
	case *value:
		if p == nil {
			panic(fr.m().runtimeError("invalid memory address or nil pointer dereference"))
		}
		fr.m().onAccess(fr.th, p, true)
		storeRec(T, p, v)
	case symPtr:
		p.b.arr = mkStore(p.b.arr, p.idx, v.(*Term))
	default:
		panic(engineError{fmt.Sprintf("store through %T", p)})
	}
}

func visitInstr(fr *frame, instr ssa.Instruction) continuation {
	m := fr.th.m
	switch instr := instr.(type) {
	case *ssa.DebugRef:

	case *ssa.UnOp:
		fr.env[instr] = fr.unop(instr, fr.get(instr.X))

	case *ssa.BinOp:
		fr.env[instr] = fr.binop(instr.Op, instr.X.Type(), fr.get(instr.X), fr.get(instr.Y))

	case *ssa.Call:
		fn, args := prepareCall(fr, &instr.Call)
		fr.env[instr] = call(fr.th, fr, instr.Pos(), fn, args)

	case *ssa.ChangeInterface:
		fr.env[instr] = fr.get(instr.X)

	case *ssa.ChangeType:
		fr.env[instr] = fr.get(instr.X)

	case *ssa.Convert:
		fr.env[instr] = fr.conv(instr.Type(), instr.X.Type(), fr.get(instr.X))

	case *ssa.MakeInterface:
		fr.env[instr] = iface{t: instr.X.Type(), v: fr.get(instr.X)}

	case *ssa.Extract:
		fr.env[instr] = fr.get(instr.Tuple).(tuple)[instr.Index]

	case *ssa.Slice:
		fr.env[instr] = fr.slice(instr, fr.get(instr.X), fr.get(instr.Low), fr.get(instr.High), fr.get(instr.Max))

	case *ssa.Return:
		switch len(instr.Results) {
		case 0:
		case 1:
			fr.result = fr.get(instr.Results[0])
		default:
			var res []value
			for _, r := range instr.Results {
				res = append(res, fr.get(r))
			}
			fr.result = tuple(res)
		}
		fr.block = nil
		return kReturn

	case *ssa.RunDefers:
		fr.runDefers()

	case *ssa.Panic:
		panic(targetPanic{fr.get(instr.X)})

	case *ssa.Send:
		m.chanSend(fr.th, fr.get(instr.Chan).(*chanObj), fr.get(instr.X))

	case *ssa.Store:
		fr.store(derefT(instr.Addr.Type()), fr.get(instr.Addr), fr.get(instr.Val))

	case *ssa.If:
		succ := 1
		m.lastIf = instr
		if m.branch(fr.get(instr.Cond).(*Term)) {
			succ = 0
		}
		fr.prevBlock, fr.block = fr.block, fr.block.Succs[succ]
		return kJump

	case *ssa.Jump:
		fr.prevBlock, fr.block = fr.block, fr.block.Succs[0]
		return kJump

	case *ssa.Defer:
		fn, args := prepareCall(fr, &instr.Call)
		fr.defers = &deferred{fn: fn, args: args, instr: instr, tail: fr.defers}

	case *ssa.Go:
		fn, args := prepareCall(fr, &instr.Call)
		m.spawn(fr.th, fn, args, instr.Pos())

	case *ssa.MakeChan:
		n := m.concretize(fr.get(instr.Size).(*Term), "chan size")
		fr.env[instr] = m.newChan(int(n))

	case *ssa.Alloc:
		var addr *value
		if instr.Heap {
			addr = new(value)
			fr.env[instr] = addr
		} else {
			addr = fr.env[instr].(*value)
		}
		if os.Getenv("GOSMT_DEBUGALLOC") != "" {
			if a, ok := derefT(instr.Type()).Underlying().(*types.Array); ok && a.Len() > 1000 {
				fmt.Fprintf(os.Stderr, "BIG ALLOC %v in %s\n", instr.Type(), fr.fn)
			}
		}
		if a, ok := derefT(instr.Type()).Underlying().(*types.Array); ok && a.Len() > 65536 {
			if eb, ok := a.Elem().Underlying().(*types.Basic); ok && eb.Kind() == types.Uint8 {
				// backing array of a large byte buffer (make([]byte, 0, 4 MiB)): contents are modelled by the gob/bytes stubs
				*addr = &ghostBytes{}
				break
			}
		}
		*addr = zero(derefT(instr.Type()))

	case *ssa.MakeSlice:
		lenT := fr.get(instr.Len).(*Term)
		capT := fr.get(instr.Cap).(*Term)
		if eb, ok := instr.Type().Underlying().(*types.Slice).Elem().Underlying().(*types.Basic); ok && eb.Kind() == types.Uint8 && capT.isC && capT.Int() > 65536 {
			// a large byte buffer (persistence block buffer): contents are modelled by the gob/bytes stubs
			fr.env[instr] = &ghostBytes{}
			break
		}
		if isU64Slice(instr.Type()) {
			fr.env[instr] = &symSlice{b: &symBack{arr: mkConstArr(mkBV(64, 0))}, len: mkResize(lenT, 64, true), cap: mkResize(capT, 64, true)}
			break
		}
		c := m.concretize(capT, "make cap")
		l := m.concretize(lenT, "make len")
		if l < 0 || c < l {
			panic(m.runtimeError("makeslice: len out of range"))
		}
		if c > 1<<22 {
			unsupported("MakeSlice of %d elements", c)
		}
		sl := make([]value, c)
		tElt := instr.Type().Underlying().(*types.Slice).Elem()
		for i := range sl {
			sl[i] = zero(tElt)
		}
		fr.env[instr] = sl[:l]

	case *ssa.MakeMap:
		fr.env[instr] = &mapObj{keyT: instr.Type().Underlying().(*types.Map).Key()}

	case *ssa.Range:
		fr.env[instr] = fr.rangeIter(fr.get(instr.X))

	case *ssa.Next:
		fr.env[instr] = fr.next(instr, fr.get(instr.Iter))

	case *ssa.FieldAddr:
		p := fr.get(instr.X).(*value)
		if p == nil {
			panic(m.runtimeError("invalid memory address or nil pointer dereference"))
		}
		if ifv, ok := (*p).(iface); ok {
			// unsafe view of an interface value as its two runtime words {type, data}
			fr.env[instr] = fr.ifaceWord(ifv, instr.Field)
			break
		}
		fr.env[instr] = &(*p).(structure)[instr.Field]

	case *ssa.Field:
		fr.env[instr] = fr.get(instr.X).(structure)[instr.Field]

	case *ssa.IndexAddr:
		x := fr.get(instr.X)
		idx := fr.get(instr.Index).(*Term)
		idx = mkResize(idx, 64, isSigned(instr.Index.Type()))
		switch x := x.(type) {
		case []value:
			i := fr.indexIn(idx, int64(len(x)))
			fr.env[instr] = &x[i]
		case *value:
			if x == nil {
				panic(m.runtimeError("invalid memory address or nil pointer dereference"))
			}
			a := (*x).(array)
			i := fr.indexIn(idx, int64(len(a)))
			fr.env[instr] = &a[i]
		case *symSlice:
			if x == nil {
				panic(m.runtimeError("index out of range (nil slice)"))
			}
			inRange := mkCmp("bvult", idx, x.len)
			if !m.branch(inRange) {
				panic(m.runtimeError("index out of range"))
			}
			fr.env[instr] = symPtr{x.b, idx}
		default:
			panic(engineError{fmt.Sprintf("IndexAddr on %T", x)})
		}

	case *ssa.Index:
		x := fr.get(instr.X)
		idx := fr.get(instr.Index).(*Term)
		idx = mkResize(idx, 64, isSigned(instr.Index.Type()))
		switch x := x.(type) {
		case array:
			fr.env[instr] = copyVal(x[fr.indexIn(idx, int64(len(x)))])
		case string:
			fr.env[instr] = mkBV(8, uint64(x[fr.indexIn(idx, int64(len(x)))]))
		default:
			panic(engineError{fmt.Sprintf("Index on %T", x)})
		}

	case *ssa.Lookup:
		fr.env[instr] = fr.lookup(instr, fr.get(instr.X), fr.get(instr.Index))

	case *ssa.MapUpdate:
		mp := fr.get(instr.Map).(*mapObj)
		if mp == nil {
			panic(targetPanic{iface{t: m.eng.runtimeErrorString, v: "assignment to entry in nil map"}})
		}
		m.onAccess(fr.th, mp, true)
		m.mapInsert(mp, fr.get(instr.Key), fr.get(instr.Value))

	case *ssa.TypeAssert:
		fr.env[instr] = fr.typeAssert(instr, fr.get(instr.X).(iface))

	case *ssa.MakeClosure:
		var bindings []value
		for _, binding := range instr.Bindings {
			bindings = append(bindings, fr.get(binding))
		}
		fr.env[instr] = &closure{instr.Fn.(*ssa.Function), bindings}

	case *ssa.Phi:
		panic("unreachable: phi")

	case *ssa.Select:
		fr.env[instr] = m.doSelect(fr, instr)

	case *ssa.SliceToArrayPointer:
		unsupported("SliceToArrayPointer")

	default:
		panic(engineError{fmt.Sprintf("unexpected instruction: %T", instr)})
	}
	return kNext
}

// indexIn checks 0 <= idx < n (forking on a symbolic violation) and returns a concrete index.
func (fr *frame) indexIn(idx *Term, n int64) int64 {
	m := fr.m()
	if idx.isC {
		i := idx.Int()
		if i < 0 || i >= n {
			panic(m.runtimeError(fmt.Sprintf("index out of range [%d] with length %d", i, n)))
		}
		return i
	}
	inRange := mkCmp("bvult", idx, mkBV(64, uint64(n)))
	if !m.branch(inRange) {
		panic(m.runtimeError("index out of range (symbolic index)"))
	}
	return m.concretize(idx, "index")
}

func prepareCall(fr *frame, cc *ssa.CallCommon) (fn value, args []value) {
	v := fr.get(cc.Value)
	if cc.Method == nil {
		fn = v
	} else {
		recv := v.(iface)
		if recv.t == nil {
			panic(fr.m().runtimeError("invalid memory address or nil pointer dereference (method on nil interface)"))
		}
		if io, ok := recv.v.(intrinsicObj); ok {
			fn = &intrinsicFn{name: cc.Method.Name(), fn: func(fr *frame, a []value) value {
				return io.invoke(fr, cc.Method.Name(), a[1:])
			}}
		} else if f := fr.m().eng.prog.LookupMethod(recv.t, cc.Method.Pkg(), cc.Method.Name()); f == nil {
			panic(engineError{fmt.Sprintf("method set for dynamic type %v does not contain %s", recv.t, cc.Method)})
		} else {
			fn = f
		}
		args = append(args, recv.v)
	}
	for _, arg := range cc.Args {
		args = append(args, fr.get(arg))
	}
	return
}

func call(th *thread, caller *frame, callpos token.Pos, fn value, args []value) value {
	switch fn := fn.(type) {
	case *ssa.Function:
		if fn == nil {
			panic(th.m.runtimeError("call of nil function"))
		}
		return callSSA(th, caller, callpos, fn, args, nil)
	case *closure:
		if fn == nil {
			panic(th.m.runtimeError("call of nil function"))
		}
		return callSSA(th, caller, callpos, fn.Fn, args, fn.Env)
	case *ssa.Builtin:
		return callBuiltin(caller, callpos, fn, args)
	case *intrinsicFn:
		if fn == nil {
			panic(th.m.runtimeError("call of nil function"))
		}
		return fn.fn(caller, args)
	}
	panic(engineError{fmt.Sprintf("cannot call %T", fn)})
}

func callSSA(th *thread, caller *frame, callpos token.Pos, fn *ssa.Function, args []value, env []value) value {
	m := th.m
	fr := &frame{th: th, caller: caller, fn: fn}
	if in := m.eng.intrinsicFor(fn); in != nil {
		return in(fr, args)
	}
	if len(m.stubs) > 0 {
		name := fn.String()
		for suf, st := range m.stubs {
			if strings.Contains(name, suf) {
				st.calls++
				if st.nondet {
					return m.nondetResult(fn, suf)
				}
				return zeroResult(fn)
			}
		}
	}
	if fn.Blocks == nil {
		panic(engineError{"no code for function: " + fn.String()})
	}
	if fn.TypeParams().Len() > 0 && len(fn.TypeArgs()) == 0 {
		panic(engineError{"uninstantiated generic function " + fn.String()})
	}
	th.depth++
	if th.depth > 400 {
		panic(engineError{"call depth exceeded in " + fn.String()})
	}
	prevFn := th.fn
	th.fn = fn
	defer func() { th.depth--; th.fn = prevFn }()
	fr.env = make(map[ssa.Value]value, 16)
	fr.block = fn.Blocks[0]
	fr.locals = make([]value, len(fn.Locals))
	for i, l := range fn.Locals {
		fr.locals[i] = zero(derefT(l.Type()))
		fr.env[l] = &fr.locals[i]
	}
	for i, p := range fn.Params {
		fr.env[p] = args[i]
	}
	for i, fv := range fn.FreeVars {
		fr.env[fv] = env[i]
	}
	for fr.block != nil {
		runFrame(fr)
	}
	return fr.result
}

func runFrame(fr *frame) {
	defer func() {
		if fr.block == nil {
			return // normal return
		}
		r := recover()
		if isControlSignal(r) {
			panic(r)
		}
		if _, ok := r.(targetPanic); !ok {
			if _, ok := r.(goexitSignal); !ok {
				// interpreter bug or Go run-time error inside the interpreter
				panic(engineError{fmt.Sprintf("interpreter crash in %s: %v", fr.fn, r)})
			}
		}
		fr.panicking = true
		fr.panic = r
		fr.runDefers()
		fr.block = fr.fn.Recover
		if fr.block == nil {
			// recovered in a function without named results: return zero values
			fr.result = zeroResult(fr.fn)
		}
	}()

	m := fr.th.m
	cnt := m.fnCount(fr.fn)
	for {
		nonPhis := executePhis(fr)
		for _, instr := range nonPhis {
			m.steps++
			*cnt++
			if m.steps > m.stepLimit {
				m.stepLimitHit()
			}
			if visitInstr(fr, instr) == kReturn {
				return
			}
		}
	}
}

func zeroResult(fn *ssa.Function) value {
	res := fn.Signature.Results()
	switch res.Len() {
	case 0:
		return nil
	case 1:
		return zero(res.At(0).Type())
	}
	return zero(res)
}

func executePhis(fr *frame) []ssa.Instruction {
	firstNonPhi := -1
	for i, instr := range fr.block.Instrs {
		if _, ok := instr.(*ssa.Phi); !ok {
			firstNonPhi = i
			break
		}
	}
	nonPhis := fr.block.Instrs[firstNonPhi:]
	if firstNonPhi > 0 {
		phis := fr.block.Instrs[:firstNonPhi]
		predIndex := slices.Index(fr.block.Preds, fr.prevBlock)
		fr.phitemps = fr.phitemps[:0]
		for _, phi := range phis {
			phi := phi.(*ssa.Phi)
			fr.phitemps = append(fr.phitemps, fr.get(phi.Edges[predIndex]))
		}
		for i, phi := range phis {
			fr.env[phi.(*ssa.Phi)] = fr.phitemps[i]
		}
	}
	return nonPhis
}

func doRecover(caller *frame) value {
	if caller != nil && !caller.panicking && caller.caller != nil && caller.caller.panicking {
		p := caller.caller.panic
		switch p := p.(type) {
		case targetPanic:
			caller.caller.panicking = false
			caller.caller.panic = nil
			if _, ok := p.v.(iface); ok {
				return p.v
			}
			return iface{t: types.Typ[types.String], v: p.v}
		case goexitSignal:
			return iface{} // Goexit cannot be recovered
		default:
			panic(engineError{fmt.Sprintf("unexpected panic type %T in recover()", p)})
		}
	}
	return iface{}
}

func (fr *frame) typeAssert(instr *ssa.TypeAssert, itf iface) value {
	var v value
	ok := false
	if idst, isI := instr.AssertedType.Underlying().(*types.Interface); isI {
		if itf.t != nil {
			if _, isIO := itf.v.(intrinsicObj); isIO {
				ok = true
			} else if types.Implements(itf.t, idst) {
				ok = true
			} else if ms := fr.m().eng.prog.MethodSets.MethodSet(itf.t); ms != nil {
				ok = true
				for i := 0; i < idst.NumMethods(); i++ {
					if ms.Lookup(idst.Method(i).Pkg(), idst.Method(i).Name()) == nil {
						ok = false
					}
				}
			}
			v = itf
		}
	} else if itf.t != nil && types.Identical(itf.t, instr.AssertedType) {
		v = itf.v
		ok = true
	}
	if !ok {
		if instr.CommaOk {
			return tuple{zero(instr.AssertedType), falseT}
		}
		panic(fr.m().runtimeError(fmt.Sprintf("interface conversion: interface is %v, not %v", itf.t, instr.AssertedType)))
	}
	if instr.CommaOk {
		return tuple{v, trueT}
	}
	return v
}

// ---- maps ----

func (m *machine) mapFind(mp *mapObj, k value) int {
	for i := range mp.entries {
		eq := equals(mp.entries[i].k, k)
		if m.branch(eq) {
			return i
		}
	}
	return -1
}

func (m *machine) mapInsert(mp *mapObj, k, v value) {
	if i := m.mapFind(mp, k); i >= 0 {
		mp.entries[i].v = v
		return
	}
	mp.entries = append(mp.entries, mapEntry{k, v})
}

func (m *machine) mapDelete(mp *mapObj, k value) {
	if mp == nil {
		return
	}
	if i := m.mapFind(mp, k); i >= 0 {
		mp.entries = append(mp.entries[:i:i], mp.entries[i+1:]...)
	}
}

func (fr *frame) lookup(instr *ssa.Lookup, x, idx value) value {
	m := fr.m()
	switch x := x.(type) {
	case *mapObj:
		var v value
		ok := false
		if x != nil {
			m.onAccess(fr.th, x, false)
			if i := m.mapFind(x, idx); i >= 0 {
				v = copyVal(x.entries[i].v)
				ok = true
			}
		}
		if !ok {
			v = zero(instr.X.Type().Underlying().(*types.Map).Elem())
		}
		if instr.CommaOk {
			return tuple{v, mkBool(ok)}
		}
		return v
	case string:
		i := fr.indexIn(mkResize(idx.(*Term), 64, isSigned(instr.Index.Type())), int64(len(x)))
		return mkBV(8, uint64(x[i]))
	}
	panic(engineError{fmt.Sprintf("lookup on %T", x)})
}

func (fr *frame) rangeIter(x value) value {
	switch x := x.(type) {
	case *mapObj:
		it := &rangeIterMap{}
		if x != nil {
			fr.m().onAccess(fr.th, x, false)
			for _, e := range x.entries {
				it.keys = append(it.keys, e.k)
				it.vals = append(it.vals, e.v)
			}
		}
		return it
	case string:
		return &rangeIterStr{s: x}
	}
	panic(engineError{fmt.Sprintf("range over %T", x)})
}

func (fr *frame) next(instr *ssa.Next, it value) value {
	switch it := it.(type) {
	case *rangeIterMap:
		if it.i >= len(it.keys) {
			return tuple{falseT, nil, nil}
		}
		k, v := it.keys[it.i], it.vals[it.i]
		it.i++
		return tuple{trueT, k, copyVal(v)}
	case *rangeIterStr:
		if it.i >= len(it.s) {
			return tuple{falseT, mkBV(64, 0), mkBV(32, 0)}
		}
		for i, r := range it.s[it.i:] {
			_ = i
			idx := it.i
			it.i += len(string(r))
			return tuple{trueT, mkBV(64, uint64(idx)), mkBV(32, uint64(r))}
		}
	}
	panic(engineError{fmt.Sprintf("next on %T", it)})
}

// ---- slicing ----

func (fr *frame) slice(instr *ssa.Slice, x, lo, hi, max value) value {
	m := fr.m()
	ci := func(v value, def int64) int64 {
		if v == nil {
			return def
		}
		return m.concretize(v.(*Term), "slice bound")
	}
	switch x := x.(type) {
	case string:
		l, h := ci(lo, 0), ci(hi, int64(len(x)))
		if l < 0 || h < l || h > int64(len(x)) {
			panic(m.runtimeError("slice bounds out of range"))
		}
		return x[l:h]
	case []value:
		l := ci(lo, 0)
		h := ci(hi, int64(len(x)))
		mx := ci(max, int64(cap(x)))
		if l < 0 || h < l || mx < h || mx > int64(cap(x)) {
			panic(m.runtimeError("slice bounds out of range"))
		}
		if x == nil {
			return []value(nil)
		}
		return x[l:h:mx]
	case *value:
		if x == nil {
			panic(m.runtimeError("nil pointer dereference in slice expr"))
		}
		if g, ok := (*x).(*ghostBytes); ok {
			return g
		}
		a := (*x).(array)
		l := ci(lo, 0)
		h := ci(hi, int64(len(a)))
		mx := ci(max, int64(len(a)))
		if l < 0 || h < l || mx < h || mx > int64(len(a)) {
			panic(m.runtimeError("slice bounds out of range"))
		}
		return []value(a)[l:h:mx]
	case *symSlice:
		if lo == nil && max == nil {
			if hi == nil {
				return x
			}
			h := mkResize(hi.(*Term), 64, true)
			if x == nil {
				return x
			}
			ok := mkCmp("bvule", h, x.cap)
			if !m.branch(ok) {
				panic(m.runtimeError("slice bounds out of range"))
			}
			return &symSlice{b: x.b, len: h, cap: x.cap}
		}
		unsupported("general slicing of SMT-array-backed []uint64")
	}
	panic(engineError{fmt.Sprintf("slice of %T", x)})
}

// ---- builtins ----

func callBuiltin(caller *frame, callpos token.Pos, fn *ssa.Builtin, args []value) value {
	m := caller.m()
	switch fn.Name() {
	case "append":
		if len(args) == 1 {
			return args[0]
		}
		if s, ok := args[1].(string); ok {
			// append([]byte, string...)
			var bs []value
			for i := 0; i < len(s); i++ {
				bs = append(bs, mkBV(8, uint64(s[i])))
			}
			return append(args[0].([]value), bs...)
		}
		a0, ok0 := args[0].([]value)
		a1, ok1 := args[1].([]value)
		if !ok0 || !ok1 {
			if isNil(args[1]) {
				return args[0]
			}
			unsupported("append on %T, %T", args[0], args[1])
		}
		cp := make([]value, len(a1))
		for i := range a1 {
			cp[i] = copyVal(a1[i])
		}
		return append(a0, cp...)

	case "copy":
		dst, ok0 := args[0].([]value)
		if !ok0 {
			unsupported("copy to %T", args[0])
		}
		switch src := args[1].(type) {
		case []value:
			n := 0
			for n < len(dst) && n < len(src) {
				dst[n] = copyVal(src[n])
				n++
			}
			return mkBV(64, uint64(n))
		case string:
			n := 0
			for n < len(dst) && n < len(src) {
				dst[n] = mkBV(8, uint64(src[n]))
				n++
			}
			return mkBV(64, uint64(n))
		}
		unsupported("copy from %T", args[1])

	case "close":
		m.chanClose(caller.th, args[0].(*chanObj))
		return nil

	case "delete":
		mp := args[0].(*mapObj)
		if mp != nil {
			m.onAccess(caller.th, mp, true)
		}
		m.mapDelete(mp, args[1])
		return nil

	case "print", "println":
		return nil

	case "len":
		switch x := args[0].(type) {
		case string:
			return mkBV(64, uint64(len(x)))
		case memString:
			return mkBV(64, uint64(x.n))
		case array:
			return mkBV(64, uint64(len(x)))
		case *value:
			return mkBV(64, uint64(len((*x).(array))))
		case []value:
			return mkBV(64, uint64(len(x)))
		case *symSlice:
			if x == nil {
				return mkBV(64, 0)
			}
			return x.len
		case *mapObj:
			if x == nil {
				return mkBV(64, 0)
			}
			m.onAccess(caller.th, x, false)
			return mkBV(64, uint64(len(x.entries)))
		case *chanObj:
			if x == nil {
				return mkBV(64, 0)
			}
			return mkBV(64, uint64(len(x.buf)))
		}
		unsupported("len of %T", args[0])

	case "cap":
		switch x := args[0].(type) {
		case array:
			return mkBV(64, uint64(len(x)))
		case *value:
			return mkBV(64, uint64(len((*x).(array))))
		case []value:
			return mkBV(64, uint64(cap(x)))
		case *symSlice:
			if x == nil {
				return mkBV(64, 0)
			}
			return x.cap
		case *chanObj:
			if x == nil {
				return mkBV(64, 0)
			}
			return mkBV(64, uint64(x.cap))
		}
		unsupported("cap of %T", args[0])

	case "recover":
		return doRecover(caller)

	case "ssa:wrapnilchk":
		recv := args[0]
		if isNil(recv) {
			panic(m.runtimeError("value method called using nil pointer"))
		}
		return recv

	case "String":
		// unsafe.String(ptr, len): the raw memory image at ptr
		dp, ok := args[0].(*value)
		n, ok2 := args[1].(*Term)
		if !ok || !ok2 || !n.isC {
			unsupported("unsafe.String of %T with length %v", args[0], args[1])
		}
		return memString{dp, n.Int()}

	case "Sizeof":
		sig := fn.Type().(*types.Signature)
		return mkBV(64, uint64(types.SizesFor("gc", "amd64").Sizeof(sig.Params().At(0).Type())))

	case "min", "max":
		unsupported("builtin %s", fn.Name())
	}
	panic(engineError{"unknown built-in: " + fn.Name()})
}

func posString(prog *ssa.Program, pos token.Pos) string {
	if pos == token.NoPos {
		return "?"
	}
	p := prog.Fset.Position(pos)
	f := p.Filename
	if i := strings.LastIndex(f, "/repo/"); i >= 0 {
		f = f[i+6:]
	}
	return fmt.Sprintf("%s:%d", f, p.Line)
}

// nondetResult returns arbitrary (fresh symbolic) scalar results for a stubbed pure callee.
func (m *machine) nondetResult(fn *ssa.Function, tag string) value {
	res := fn.Signature.Results()
	one := func(t types.Type) value {
		if b, ok := t.Underlying().(*types.Basic); ok {
			switch {
			case b.Info()&types.IsBoolean != 0:
				return m.fresh("stub:"+tag, BoolSort)
			case b.Info()&types.IsInteger != 0:
				return m.fresh("stub:"+tag, BV(bitsOf(b)))
			}
		}
		return zero(t)
	}
	switch res.Len() {
	case 0:
		return nil
	case 1:
		return one(res.At(0).Type())
	}
	tp := make(tuple, res.Len())
	for i := range tp {
		tp[i] = one(res.At(i).Type())
	}
	return tp
}

// noteArrRead remembers reads that may reach the initial contents of a symbolic array, so that a model can
// be completed with the array cells it depends on (needed to replay counterexamples concretely).
func (m *machine) noteArrRead(arr, idx *Term) {
	if m.replay != nil {
		return
	}
	base := arr
	for base.op == "store" {
		base = base.args[0]
	}
	if base.op != "var" {
		return
	}
	for _, r := range m.arrReads {
		if r.arr == base && r.idx == idx {
			return
		}
	}
	if len(m.arrReads) < 512 {
		m.arrReads = append(m.arrReads, arrRead{base, idx})
	}
}

// ifaceWord models the gc runtime layout of an interface value for code that reads it through unsafe:
// word 0 is the type word (opaque), word 1 the data word, which is the pointer itself for pointer-shaped
// dynamic types and the address of a copy of the value otherwise. The result is a pointer to a cell holding
// that word (the caller loads through it).
func (fr *frame) ifaceWord(ifv iface, field int) *value {
	cell := new(value)
	if field == 0 {
		*cell = (*value)(nil)
		if ifv.t != nil {
			tp := new(value)
			*tp = ifv.t.String()
			*cell = tp
		}
		return cell
	}
	if ifv.t == nil {
		*cell = (*value)(nil)
		return cell
	}
	v := ifv.v
	// unwrap single-element aggregates: they share the representation of their element
	t := ifv.t
	for {
		switch u := t.Underlying().(type) {
		case *types.Struct:
			if u.NumFields() == 1 {
				t = u.Field(0).Type()
				v = v.(structure)[0]
				continue
			}
		case *types.Array:
			if u.Len() == 1 {
				t = u.Elem()
				v = v.(array)[0]
				continue
			}
		}
		break
	}
	switch t.Underlying().(type) {
	case *types.Pointer:
		*cell = v // pointer-shaped: the data word is the pointer itself
		return cell
	case *types.Chan, *types.Map, *types.Signature:
		unsupported("interface data word of a %v value", t)
	}
	if b, ok := t.Underlying().(*types.Basic); ok && b.Kind() == types.UnsafePointer {
		*cell = v
		return cell
	}
	box := new(value)
	*box = copyVal(ifv.v)
	*cell = box
	return cell
}
