//go:build verif

package internal

import "testing"

func TestZZDiffNative(t *testing.T) { ZZ_Diff_All() }
