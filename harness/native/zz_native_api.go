//go:build verif

package internal

import "fmt"

// Native body of the one harness-API function the translator-validation scenarios use.
func vfDigest(name string, v uint64) { fmt.Printf("DIGEST %s %d\n", name, v) }
