//go:build verif

package internal

// C20 — Wait is a write barrier and always returns. Bounded concurrent program on the real Store:
// writes issued (and returned) before the waiters start, W goroutines calling the real Wait() concurrently,
// the real maintenance loop; the executor explores the schedules and reports a state in which nobody can run.

type zzNote struct {
	key, val uint64
	reason   RemoveReason
}

func zzThreadedStore(capv int64, notes *[]zzNote) *Store[uint64, uint64] {
	vfSetHashMode(1)
	StripedBufferSize = 1
	if vfConfig("POOL", 0) == 1 {
		vfSetPoolMode(vfConfig("POOLMODE", 1)) // 1: LIFO reuse, 2: adversarial choice among pooled entries
	}
	if q := vfConfig("WQ", 0); q > 0 {
		WriteChanSize = q
	}
	if b := vfConfig("WB", 0); b > 0 {
		WriteBufferSize = b
	}
	s := NewStore[uint64, uint64](&StoreOptions[uint64, uint64]{
		MaxSize:    capv,
		EntryPool:  vfConfig("POOL", 0) == 1,
		Doorkeeper: vfConfig("DOOR", 0) == 1,
		Listener: func(k, v uint64, r RemoveReason) {
			if notes != nil {
				*notes = append(*notes, zzNote{k, v, r})
			}
		},
	})
	vfQuiesce() // start-up settles: the maintenance goroutines reach their idle select and the ticker exists
	return s
}

// zzAccounted: every entry in the shard maps is on exactly one region list with policyWeight == weight, and the totals agree.
func zzAccounted(s *Store[uint64, uint64], label string) {
	var mapCost int64
	n := 0
	s.RangeEntry(func(e *Entry[uint64, uint64]) {
		n++
		mapCost += e.weight.Load()
		onList := e.meta.prev != nil && e.meta.next != nil
		vfAssert(label+":resident-entry-known-to-policy", onList)
		vfAssert(label+":policy-weight-current", e.policyWeight == e.weight.Load())
		vfAssert(label+":not-flagged-removed", !e.flag.IsRemoved() && !e.flag.IsDeleted())
	})
	p := s.policy
	// the region flag of every listed entry names the list it is on, and only that one
	for _, l := range []*List[uint64, uint64]{p.window, p.slru.probation, p.slru.protected} {
		for e := l.Front(); e != nil; e = e.Next(l.listType) {
			vfAssert(label+":region-flag-names-the-list", e.flag.IsWindow() == (l.listType == LIST_WINDOW) &&
				e.flag.IsProbation() == (l.listType == LIST_PROBATION) && e.flag.IsProtected() == (l.listType == LIST_PROTECTED))
		}
	}
	lists := p.window.len + p.slru.probation.len + p.slru.protected.len
	vfAssert(label+":resident-cost-equals-policy-total", mapCost == int64(p.weightedSize))
	vfAssert(label+":policy-total-equals-region-sum", lists == int64(p.weightedSize))
	vfAssert(label+":within-max-size", p.weightedSize <= p.capacity)
	vfAssert(label+":count", p.window.count+p.slru.probation.count+p.slru.protected.count == n)
}

func ZZ_C20_Waiters() {
	W := vfConfig("WAITERS", 2)
	NW := vfConfig("WRITES", 3)
	var notes []zzNote
	s := zzThreadedStore(2, &notes)
	vfSetPreemptions(vfConfig("PRE", 0))
	for i := 0; i < NW; i++ {
		s.Set(uint64(i+1), uint64(100+i), 1, 0)
	}
	if vfConfig("DEL", 1) == 1 {
		s.Delete(1)
	}
	done := make(chan int, W)
	for i := 0; i < W; i++ {
		go func() {
			s.Wait()
			// barrier: everything issued before this Wait has been applied
			zzAccounted(s, "barrier")
			stored := NW
			resident := s.Len()
			vfAssert("barrier:stored-equals-resident-plus-notified", stored == resident+len(notes))
			done <- 1
		}()
	}
	for i := 0; i < W; i++ {
		<-done
	}
	vfReach("all-waiters-returned")
}

// ZZ_C20_WaitWithWriter: a writer keeps writing while two goroutines wait.
func ZZ_C20_WaitWithWriter() {
	var notes []zzNote
	s := zzThreadedStore(2, &notes)
	vfSetPreemptions(vfConfig("PRE", 1))
	done := make(chan int, 3)
	go func() {
		s.Set(1, 101, 1, 0)
		s.Set(2, 102, 1, 0)
		s.Set(3, 103, 1, 0)
		done <- 1
	}()
	for i := 0; i < 2; i++ {
		go func() {
			s.Wait()
			done <- 1
		}()
	}
	for i := 0; i < 3; i++ {
		<-done
	}
	s.Wait()
	zzAccounted(s, "final")
	vfReach("all-returned")
}

// ZZ_C20_BarrierWithBusyQueue: the barrier holds for the caller's own earlier writes also while another
// goroutine keeps the write queue busy: after Wait the removal notification of the caller's Delete has been
// delivered and its Set is accounted for. (The other writer only touches its own key and causes no eviction.)
func ZZ_C20_BarrierWithBusyQueue() {
	var notes []zzNote
	s := zzThreadedStore(10, &notes)
	vfSetPreemptions(vfConfig("PRE", 1))
	done := make(chan int, 2)
	go func() {
		for i := 0; i < vfConfig("BUSY", 3); i++ {
			s.Set(9, uint64(900+i), 1, 0)
		}
		done <- 1
	}()
	go func() {
		s.Set(1, 101, 1, 0)
		s.Set(2, 201, 1, 0)
		s.Delete(1)
		s.Wait()
		delivered := false
		for _, n := range notes {
			if n.key == 1 && n.val == 101 && n.reason == REMOVED {
				delivered = true
			}
		}
		vfAssert("barrier:delete-notification-delivered", delivered)
		e, ok := s.shards[zzIndex(s, 2)].hashmap[2]
		vfAssert("barrier:set-accounted", ok && e.policyWeight == 1 && e.meta.prev != nil)
		done <- 1
	}()
	<-done
	<-done
	vfSetPreemptions(0)
	s.Wait()
	zzAccounted(s, "final")
	vfReach("all-returned")
}

// ZZ_C20_TwoBarriers: two goroutines each write and then wait. Each Wait covers the caller's own earlier writes,
// whatever the other goroutine's Wait is doing at the time (a marker answered for one caller says nothing
// about writes the other caller queued after that marker).
func ZZ_C20_TwoBarriers() {
	var notes []zzNote
	s := zzThreadedStore(10, &notes)
	vfSetPreemptions(vfConfig("PRE", 1))
	done := make(chan int, 2)
	for i := 0; i < 2; i++ {
		i := i
		go func() {
			base := uint64(10 * (i + 1))
			for r := 0; r < vfConfig("ROUNDS", 1); r++ {
				k := base + uint64(r)
				s.Set(k, 100+k, 2, 0)
				s.Wait()
				e, ok := s.shards[zzIndex(s, k)].hashmap[k]
				vfAssert("barrier:own-write-applied", ok && e.policyWeight == 2 && e.meta.prev != nil)
			}
			done <- 1
		}()
	}
	<-done
	<-done
	vfSetPreemptions(0)
	s.Wait()
	zzAccounted(s, "final")
	vfReach("all-returned")
}
