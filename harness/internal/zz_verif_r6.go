//go:build verif

package internal

import (
	"context"
	"errors"
	"time"
)

// Round-6 programs: written after the sixth round of seeded changes and the side findings reported with them.

// ZZ_C05_Conc: the notification ledger on concurrent histories. Two clients issue one call each out of
// Set k1 / Delete k1 / Set k2 (optionally with k1 resident beforehand), every interleaving within the preemption
// bound, including a Delete that lands between a Set's map insertion and the queueing of its insert event (the
// REMOVE event then overtakes the NEW event). After the drain every accepted value is resident xor notified exactly
// once, unless another accepted write of the same key can have overwritten it in place; no notification names a
// value that was never accepted; the accounting is exact.
func ZZ_C05_Conc() {
	var notes []zzNote
	s := zzThreadedStore(int64(vfConfig("CAP", 2)), &notes)
	var accepted []zzNote
	deletes := 0
	if vfConfig("SETUP", 0) == 1 {
		if s.Set(1, 50, 1, 0) {
			accepted = append(accepted, zzNote{key: 1, val: 50})
		}
		s.Wait()
	}
	vfSetPreemptions(vfConfig("PRE", 1))
	done := make(chan int, 2)
	for i := 0; i < 2; i++ {
		i := i
		go func() {
			switch vfChoose("op", 3) {
			case 0:
				v := uint64(100 + i)
				if s.Set(1, v, 1, 0) {
					accepted = append(accepted, zzNote{key: 1, val: v})
				}
			case 1:
				deletes++
				s.Delete(1)
			case 2:
				v := uint64(200 + i)
				if s.Set(2, v, 1, 0) {
					accepted = append(accepted, zzNote{key: 2, val: v})
				}
			}
			done <- 1
		}()
	}
	<-done
	<-done
	vfSetPreemptions(0)
	s.Wait()
	vfReach("drained")
	for _, a := range accepted {
		n := 0
		for _, x := range notes {
			if x.key == a.key && x.val == a.val {
				n++
				vfAssert("conc:removed-reason-needs-a-delete", vfImplies(x.reason == REMOVED, deletes > 0))
			}
		}
		others := 0
		for _, b := range accepted {
			if b.key == a.key && b.val != a.val {
				others++
			}
		}
		e, present := s.shards[zzIndex(s, a.key)].hashmap[a.key]
		resident := present && e.value == a.val
		vfAssert("conc:notified-at-most-once", n <= 1)
		vfAssert("conc:resident-value-not-notified", !(resident && n > 0))
		if others == 0 {
			vfAssert("conc:resident-xor-notified-exactly-once", resident || n == 1)
		}
	}
	for _, x := range notes {
		known := false
		for _, a := range accepted {
			if a.key == x.key && a.val == x.val {
				known = true
			}
		}
		vfAssert("conc:notification-names-an-accepted-value", known)
	}
	zzAccounted(s, "conc")
	zzViews(s, "conc")
}

// ZZ_C20_BarrierWithBusyShard: Wait is a barrier also for the evictions a write causes when the shard of the victim
// is busy at that moment (a loader of another key of that shard is running under the shard lock): when Wait returns
// the victim has left the map, its notification has been delivered and the accounting is exact - the barrier may take
// as long as the loader, it may not return early.
func ZZ_C20_BarrierWithBusyShard() {
	var notes []zzNote
	s := zzThreadedStore(1, &notes)
	ls := NewLoadingStore(s)
	home := zzIndex(s, 1)
	// two more keys of the shard of key 1
	var same []uint64
	for k := uint64(2); len(same) < 2 && k < 4096; k++ {
		if zzIndex(s, k) == home {
			same = append(same, k)
		}
	}
	k2, k3 := same[0], same[1]
	s.Set(1, 101, 1, 0)
	s.Wait()
	ls.Loader(func(ctx context.Context, key uint64) (Loaded[uint64], error) {
		vfYield() // a slow loader, holding the shard lock
		vfYield()
		vfYield()
		return Loaded[uint64]{}, errors.New("backend down")
	})
	vfSetPreemptions(vfConfig("PRE", 1))
	done := make(chan int, 1)
	go func() {
		_, err := ls.Get(context.Background(), k3)
		vfAssert("load-error-returned", err != nil)
		done <- 1
	}()
	ok := s.Set(k2, 202, 1, 0)
	s.Wait()
	vfReach("barrier-returned")
	if ok {
		// capacity 1: one of the two entries had to go, and at the return of Wait it has gone completely
		n := 0
		for _, sh := range s.shards {
			for _, e := range sh.hashmap {
				n++
				vfAssert("barrier:resident-entry-known-to-policy", e.meta.prev != nil && e.policyWeight == 1)
			}
		}
		vfAssert("barrier:eviction-complete", n == 1)
		ev := 0
		for _, x := range notes {
			if x.reason == EVICTED {
				ev++
			}
		}
		vfAssert("barrier:eviction-notified", ev == 1)
	}
	<-done
	vfSetPreemptions(0)
	s.Wait()
	zzAccounted(s, "final")
	vfReach("all-returned")
}

// ZZ_C14_DeadlineVsDemotion: a SetWithTTL with a short TTL races the demotion of the same key, which was stored with
// a long TTL. Whatever the interleaving with the demotion worker (which writes, releases the shard lock, and writes
// again when the entry was overwritten in between), once the short deadline has passed no tier serves the key: the
// older value is stale, the newer one has expired. The copy in the secondary tier never outlives the deadline that
// the last completed SetWithTTL established.
func ZZ_C14_DeadlineVsDemotion() {
	h := zzHybNew(1, false)
	s := h.s
	s.Set(1, 101, 1, time.Duration(1<<40)) // long TTL
	h.settle()
	vfSetPreemptions(vfConfig("PRE", 1))
	done := make(chan int, 2)
	go func() { s.Set(1, 102, 1, time.Duration(1<<29)); done <- 1 }() // short TTL
	go func() { s.Set(2, 201, 1, 0); done <- 1 }()                    // capacity 1: one of the two keys is demoted
	<-done
	<-done
	vfSetPreemptions(0)
	h.settle()
	vfReach("both-returned")
	if e, ok := h.sec.m[1]; ok && e.val == 102 {
		vfAssert("demoted-copy-carries-the-deadline-of-its-value", e.expire != 0 && e.expire <= 1<<29+1<<20)
	}
	// beyond the short deadline, long before the long one
	vfClockSet(h.origin + 1<<31)
	s.timerwheel.clock.RefreshNowCache()
	_, hit, err := s.GetWithSecodary(1)
	vfAssert("nothing-served-after-the-last-deadline", err == nil && !hit)
	if vfConfig("LOADING", 0) == 1 {
		ls := NewLoadingStore(s)
		calls := 0
		ls.Loader(func(ctx context.Context, key uint64) (Loaded[uint64], error) {
			calls++
			return Loaded[uint64]{Value: 900 + key, Cost: 1}, nil
		})
		v, err := ls.Get(context.Background(), 1)
		vfAssert("loading-get-loads-afresh-after-the-last-deadline", err == nil && v == 901 && calls == 1)
	}
}

// ZZ_C01_PoolNoListener: entry pool on and no removal listener registered (every other program registers one). A key
// is set and deleted at once while the cache is full, so that its entry may be evicted by the policy and then meet
// the REMOVE event of the Delete, or the other way round; the entry object must go back to the pool at most once:
// two keys stored afterwards never share an entry object and read back their own values.
func ZZ_C01_PoolNoListener() {
	vfSetHashMode(1)
	StripedBufferSize = 1
	vfSetPoolMode(vfConfig("POOLMODE", 1))
	capv := vfConfig("CAP", 4)
	s := NewStore[uint64, uint64](&StoreOptions[uint64, uint64]{MaxSize: int64(capv), EntryPool: true})
	vfQuiesce()
	for i := 0; i < capv; i++ {
		s.Set(uint64(10+i), uint64(1010+i), 1, 0) // the cache is full
	}
	s.Wait()
	vfSetPreemptions(vfConfig("PRE", 0))
	c1 := vfI64("cost1") // a cost above the window's share makes the new entry itself a candidate for eviction
	vfAssume(c1 >= 1)
	vfAssume(c1 <= 3)
	s.Set(1, 101, c1, 0)
	s.Delete(1)
	s.Wait()
	_, hit1 := s.Get(1)
	vfAssert("deleted-key-absent", !hit1)
	ok2 := s.Set(2, 202, 1, 0)
	ok3 := s.Set(3, 303, 1, 0)
	vfReach("two-more-keys")
	e2, p2 := s.shards[zzIndex(s, 2)].hashmap[2]
	e3, p3 := s.shards[zzIndex(s, 3)].hashmap[3]
	vfAssert("two-keys-never-share-an-entry-object", !(p2 && p3) || e2 != e3)
	vfAssert("entry-filed-under-its-own-key", (!p2 || e2.key == 2) && (!p3 || e3.key == 3))
	v2, h2 := s.Get(2)
	v3, h3 := s.Get(3)
	vfAssert("reads-return-own-value", vfImplies(h2, v2 == 202) && vfImplies(h3, v3 == 303))
	_, _ = ok2, ok3 // the cache is full: an accepted key may already have been evicted again when it is read
	vfSetPreemptions(0)
	s.Wait()
	s.Range(func(k, v uint64) bool {
		want := uint64(0)
		switch k {
		case 10, 11, 12, 13, 14, 15, 16, 17:
			want = 1000 + k
		case 2:
			want = 202
		case 3:
			want = 303
		}
		vfAssert("range-visits-own-values-only", v == want)
		return true
	})
	zzAccounted(s, "pool-no-listener")
}

// ZZ_C13_FailedLoadCostFn: a cache built with a cost function whose loader fails. The loader's error reaches the
// caller as that error (the cost function is a user function defined on loaded values; it is not applied to the zero
// value a failed load comes with - here it panics on it, as a function that dereferences its argument would), the
// failure is not cached, and the next Get runs the loader again and weighs its value with the cost function.
func ZZ_C13_FailedLoadCostFn() {
	vfSetHashMode(1)
	StripedBufferSize = 1
	costCalls := 0
	s := NewStore[uint64, uint64](&StoreOptions[uint64, uint64]{MaxSize: 10, Cost: func(v uint64) int64 {
		costCalls++
		if v == 0 {
			panic("cost function applied to the zero value of a failed load")
		}
		return 2
	}})
	vfQuiesce()
	ls := NewLoadingStore(s)
	fail := errors.New("backend down")
	ls.Loader(func(ctx context.Context, key uint64) (Loaded[uint64], error) { return Loaded[uint64]{}, fail })
	_, err := ls.Get(context.Background(), 1)
	vfReach("failed-load-returned")
	vfAssert("loader-error-reaches-the-caller", err == fail)
	vfAssert("cost-function-not-applied-to-a-failed-load", costCalls == 0)
	_, present := s.shards[zzIndex(s, 1)].hashmap[1]
	vfAssert("failed-load-not-cached", !present)
	ls.Loader(func(ctx context.Context, key uint64) (Loaded[uint64], error) { return Loaded[uint64]{Value: 7}, nil })
	v, err2 := ls.Get(context.Background(), 1)
	vfAssert("next-get-loads-again", err2 == nil && v == 7 && costCalls == 1)
	s.Wait()
	e, ok := s.shards[zzIndex(s, 1)].hashmap[1]
	vfAssert("loaded-value-weighed-by-the-cost-function", ok && e.weight.Load() == 2 && e.policyWeight == 2)
}

// ZZ_C15_FailedSecondaryDelete: hybrid Delete while the secondary store's Delete fails or succeeds by choice. The
// error is reported to the caller; whatever the secondary store answered, the memory tier stays consistent: an entry
// that has left the map has left the policy too (resident cost = policy total = size views, nothing tracked that is
// not resident) and its removal is notified exactly once; a Delete that reported success leaves the key in no tier.
func ZZ_C15_FailedSecondaryDelete() {
	h := zzHybNew(2, false)
	s := h.s
	s.Set(1, 101, 1, 0)
	s.Set(2, 201, 1, 0)
	h.settle()
	h.sec.failDelete = true
	err := s.DeleteWithSecondary(1)
	h.settle()
	vfReach("delete-returned")
	_, present := s.shards[zzIndex(s, 1)].hashmap[1]
	n := 0
	for _, x := range h.notes {
		if x.key == 1 {
			n++
			vfAssert("failed-secondary-delete:reported-as-removed", x.reason == REMOVED && x.val == 101)
		}
	}
	vfAssert("failed-secondary-delete:left-the-map-iff-notified-once", (present && n == 0) || (!present && n == 1))
	if err == nil {
		_, inSec := h.sec.m[1]
		vfAssert("successful-delete-leaves-no-tier", !present && !inSec)
	}
	zzAccounted(s, "failed-secondary-delete")
	zzViews(s, "failed-secondary-delete")
	// a retry after the secondary store has recovered completes the Delete
	h.sec.failDelete = false
	err2 := s.DeleteWithSecondary(1)
	h.settle()
	_, hit, _ := s.GetWithSecodary(1)
	vfAssert("retry-completes-the-delete", err2 == nil && !hit)
	zzAccounted(s, "after-retry")
}

// ZZ_C06_OversizePromotion: the secondary tier holds a copy whose recorded cost (symbolic) may exceed MaxSize (the
// secondary store can outlive a cache that is rebuilt with a smaller size). A hybrid Get (plain or loading) hands the
// value to the caller; a value whose cost exceeds MaxSize is never resident by that path either, displaces nobody and
// is never notified; the memory tier stays within MaxSize and consistent.
func ZZ_C06_OversizePromotion() {
	h := zzHybNew(2, false)
	s := h.s
	s.Set(1, 101, 1, 0)
	s.Set(2, 201, 1, 0)
	h.settle()
	c := vfI64("secondaryCost")
	vfAssume(c >= 1)
	vfAssume(c <= 6)
	h.sec.m[9] = zzSecEnt{909, c, 0}
	vfNote("oversize", vfIte64(c > 2, 1, 0))
	if vfConfig("LOADING", 0) == 1 {
		ls := NewLoadingStore(s)
		ls.Loader(func(ctx context.Context, key uint64) (Loaded[uint64], error) {
			return Loaded[uint64]{Value: 1000 + key, Cost: 1}, nil
		})
		v, err := ls.Get(context.Background(), 9)
		vfAssert("promotion:value-returned", err == nil && v == 909)
	} else {
		v, hit, err := s.GetWithSecodary(9)
		vfAssert("promotion:value-returned", err == nil && hit && v == 909)
	}
	h.settle()
	vfReach("promoted-or-not")
	_, present := s.shards[zzIndex(s, 9)].hashmap[9]
	vfAssert("promotion:oversize-value-not-resident", vfImplies(c > 2, !present))
	if c > 2 {
		_, p1 := s.shards[zzIndex(s, 1)].hashmap[1]
		_, p2 := s.shards[zzIndex(s, 2)].hashmap[2]
		vfAssert("promotion:oversize-value-displaces-nobody", p1 && p2)
		vfAssert("promotion:oversize-value-never-notified", len(h.notes) == 0)
	}
	vfAssert("promotion:memory-within-max-size", h.memCost() <= 2)
	zzAccounted(s, "promotion")
}
