//go:build verif

package internal

import (
	"context"
	"time"
)

// C19 — no data races in the default configuration. The executor attaches vector clocks to threads and
// last-access epochs to every heap cell it loads or stores (happens-before edges: mutex release->acquire,
// channel send->receive / close->receive, go, WaitGroup, sync/atomic accesses) and reports two unordered
// accesses to one cell of which one is a write and one is not atomic.

func ZZ_C19_Pairs() {
	var notes []zzNote
	s := zzThreadedStore(2, &notes)
	origin := vfClockNow()
	s.Set(1, 100, 1, 0)
	s.Set(2, 200, 1, time.Duration(1<<29))
	s.Wait()
	vfSetRaceDetector(true)
	vfSetPreemptions(vfConfig("PRE", 1))
	pair := vfConfig("PAIR", 0)
	done := make(chan int, 2)
	a := func(f func()) {
		go func() { f(); done <- 1 }()
	}
	switch pair {
	case 0: // Range || Set (update and insert)
		a(func() { s.Range(func(k, v uint64) bool { return true }) })
		a(func() { s.Set(1, 101, 2, 0); s.Set(3, 300, 1, 0) })
	case 1: // Len / EstimatedSize || Delete + maintenance
		a(func() { _ = s.Len(); _ = s.EstimatedSize() })
		a(func() { s.Delete(1); s.Set(3, 300, 1, 0) })
	case 2: // Stats || Get
		a(func() { _ = s.Stats() })
		a(func() { s.Get(1); s.Get(9) })
	case 3: // Get (read-buffer drain) || Set with eviction and listener
		a(func() {
			for i := 0; i < 17; i++ {
				s.Get(1)
			}
		})
		a(func() { s.Set(3, 300, 1, 0); s.Set(4, 400, 1, 0) })
	case 4: // timer tick (expiry) || Set on the expiring key
		vfClockSet(origin + 1<<31)
		vfFireTickers()
		a(func() { s.Set(2, 201, 1, time.Duration(1<<33)) })
		a(func() { s.Get(2) })
	case 5: // Close || Get / Set
		a(func() { s.Close() })
		a(func() { s.Get(1); s.Set(1, 102, 1, 0) })
	case 6: // Wait || Set
		a(func() { s.Wait() })
		a(func() { s.Set(3, 300, 1, 0) })
	case 7: // SaveCache || Set / Delete
		a(func() { err := s.Persist(1, vfGhostStream()); vfAssert("save-succeeds", err == nil) })
		a(func() { s.Set(1, 103, 2, 0); s.Delete(2); s.Set(3, 300, 1, 0) })
	case 8: // SaveCache || tick (expiry)
		vfClockSet(origin + 1<<31)
		vfFireTickers()
		a(func() { err := s.Persist(1, vfGhostStream()); vfAssert("save-succeeds", err == nil) })
		a(func() { s.Get(2) })
	case 9: // loading Get || Delete / Set on the same key
		ls := NewLoadingStore(s)
		ls.Loader(func(ctx context.Context, key uint64) (Loaded[uint64], error) {
			return Loaded[uint64]{Value: 5, Cost: 1}, nil
		})
		a(func() { _, _ = ls.Get(context.Background(), 7); _, _ = ls.Get(context.Background(), 1) })
		a(func() { s.Delete(1); s.Set(7, 700, 1, 0) })
	case 10: // Close || Len / Range
		a(func() { s.Close() })
		a(func() { _ = s.Len(); s.Range(func(k, v uint64) bool { return true }) })
	case 11: // Close || EstimatedSize / Stats / Delete
		a(func() { s.Close() })
		a(func() { _ = s.EstimatedSize(); _ = s.Stats(); s.Delete(1) })
	}
	<-done
	<-done
	vfSetPreemptions(0)
	if pair != 5 && pair < 10 {
		s.Wait()
	}
	vfQuiesce()
	vfReach("pair-done")
	vfAssertNoRace("no-data-race")
}
