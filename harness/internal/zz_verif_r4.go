//go:build verif

package internal

import (
	"context"
	"time"
)

// Round-4 programs: written after the fourth round of seeded changes and the side findings reported with them.

// ZZ_C02_ArrivalWindow: the insert event of a short-TTL entry is processed after its deadline while a second
// writer extends the deadline (the extension may land between the "expired on arrival" test of the insert
// event and the re-check of the removal). Whatever the interleaving, the accepted second value is resident,
// tracked by the policy and on the wheel, and the accounting is exact.
func ZZ_C02_ArrivalWindow() {
	var notes []zzNote
	s := zzThreadedStore(10, &notes)
	origin := vfClockNow()
	c2 := vfI64("cost2")
	vfAssume(c2 >= 1)
	vfAssume(c2 <= 3)
	s.Set(1, 100, 1, time.Duration(1<<29)) // event queued, not yet processed
	vfClockSet(origin + 1<<31)              // the deadline passes while the event waits
	vfSetPreemptions(vfConfig("PRE", 1))
	done := make(chan int, 1)
	var ok bool
	go func() {
		ok = s.Set(1, 101, c2, time.Duration(1<<33)) // far-away deadline
		done <- 1
	}()
	<-done
	vfSetPreemptions(0)
	s.Wait()
	vfQuiesce()
	s.Wait()
	vfReach("settled")
	vfAssert("arrival:second-set-accepted", ok)
	e, resident := s.shards[zzIndex(s, 1)].hashmap[1]
	vfAssert("arrival:accepted-value-not-lost", resident && e.value == 101)
	zzAccounted(s, "arrival")
	zzOnWheel(s, "arrival")
	zzViews(s, "arrival")
	for _, n := range notes {
		vfAssert("arrival:no-notification-for-resident-value", n.val != 101)
	}
}

// ---- hybrid cache: concurrent histories checked against the sequential specification (C14) ----

func zzC14Client(h *zzHyb, hist *zzHist, tag *uint64, nops int, fixed int) {
	s := h.s
	for i := 0; i < nops; i++ {
		op := fixed // a pinned operation (quick tier) or any of the four
		if fixed < 0 {
			op = vfChoose("op", 4)
		}
		*tag++
		switch op {
		case 0, 1:
			o := hist.begin(0, uint64(op+1), *tag)
			o.ok = s.Set(o.key, o.val, 1, 0)
			hist.end(o)
		case 2:
			o := hist.begin(1, 1, 0)
			v, hit, _ := s.GetWithSecodary(1)
			o.hit, o.val = hit, v
			hist.end(o)
		case 3:
			o := hist.begin(2, 1, 0)
			_ = s.DeleteWithSecondary(1)
			hist.end(o)
		}
	}
}

// ZZ_C14_Conc: two clients issue real hybrid calls (Set k1 / Set k2 / Get k1 / Delete k1, distinct value per
// write) on a capacity-1 hybrid cache whose worker, queue and secondary store (slow; failing when FAIL=1)
// are the real ones; SETUP chooses the state the race starts from (empty / key 1 demoted / key 1 promoted and
// clean / key 1 promoted and overwritten). The recorded history, and a final read after everything has
// settled, must be explained by a sequential map that may drop keys: never an older value than the last
// completed Set, never a deleted one.
func ZZ_C14_Conc() {
	h := zzHybNew(1, vfConfig("FAIL", 0) == 1)
	s := h.s
	hist := &zzHist{}
	set := func(k, v uint64) {
		o := hist.begin(0, k, v)
		o.ok = s.Set(k, v, 1, 0)
		hist.end(o)
		h.settle()
	}
	setup := vfConfig("SETUP", 1)
	if setup >= 1 {
		set(1, 51)
		set(2, 52) // key 1 demoted
	}
	if setup >= 2 {
		o := hist.begin(1, 1, 0)
		v, hit, _ := s.GetWithSecodary(1) // key 1 promoted (clean copy), key 2 demoted
		o.hit, o.val = hit, v
		hist.end(o)
		h.settle()
	}
	if setup >= 3 {
		set(1, 53) // promoted copy overwritten: the secondary tier holds the older 51
	}
	vfSetPreemptions(vfConfig("PRE", 1))
	done := make(chan int, 2)
	var tagA, tagB uint64 = 100, 200
	opsA, opsB := vfConfig("OPSA", 1), vfConfig("OPSB", 1)
	fixA, fixB := vfConfig("FIXA", -1), vfConfig("FIXB", -1)
	go func() { zzC14Client(h, hist, &tagA, opsA, fixA); done <- 1 }()
	go func() { zzC14Client(h, hist, &tagB, opsB, fixB); done <- 1 }()
	<-done
	<-done
	vfSetPreemptions(0)
	vfReach("history-complete")
	vfAssert("hybrid-history-is-linearizable", hist.linearizable())
	h.settle()
	o := hist.begin(1, 1, 0)
	v, hit, _ := s.GetWithSecodary(1)
	o.hit, o.val = hit, v
	hist.end(o)
	vfAssert("hybrid-final-read-linearizable", hist.linearizable())
}

// ZZ_C15_VisibleWhileDemoted: with admission probability 1, a working secondary store and room in the queue an
// entry evicted for capacity reasons is in one of the two tiers at every moment: a hybrid Get that runs while
// the (slow) secondary write is in flight still finds it, and the loading variant does not run the loader.
func ZZ_C15_VisibleWhileDemoted() {
	h := zzHybNew(1, false)
	s := h.s
	loading := vfConfig("LOADING", 0) == 1
	var ls *LoadingStore[uint64, uint64]
	loads := 0
	if loading {
		ls = NewLoadingStore(s)
		ls.Loader(func(ctx context.Context, key uint64) (Loaded[uint64], error) {
			loads++
			return Loaded[uint64]{Value: 900 + key, Cost: 1}, nil
		})
	}
	s.Set(1, 101, 1, 0)
	h.settle()
	vfSetPreemptions(vfConfig("PRE", 1))
	done := make(chan int, 2)
	var v uint64
	var hit bool
	go func() { s.Set(2, 201, 1, 0); done <- 1 }() // evicts one of the two
	go func() {
		if loading {
			v, _ = ls.Get(context.Background(), 1)
			hit = true
		} else {
			v, hit, _ = s.GetWithSecodary(1)
		}
		done <- 1
	}()
	<-done
	<-done
	vfSetPreemptions(0)
	vfReach("both-returned")
	vfAssert("evicted-entry-in-one-of-the-tiers-at-any-time", hit && v == 101)
	vfAssert("no-reload-of-an-evicted-entry", loads == 0)
	h.settle()
}

// ZZ_C14_FailedDemotion: the secondary tier holds an older copy of key 1, memory the newer value; the newer value
// is evicted and the write that should carry it to the secondary tier may fail (every secondary Set fails or
// succeeds, by choice). Whatever the outcome, the older copy is not served afterwards.
func ZZ_C14_FailedDemotion() {
	h := zzHybNew(1, true)
	s := h.s
	h.sec.mayFail = false
	s.Set(1, 51, 1, 0)
	h.settle()
	s.Set(2, 52, 1, 0) // key 1 demoted
	h.settle()
	if vfConfig("PROMOTE", 1) == 1 {
		v0, hit0, _ := s.GetWithSecodary(1)
		vfAssert("promoted", hit0 && v0 == 51)
		h.settle()
	}
	ok := s.Set(1, 53, 1, 0) // newer value in memory, 51 still in the secondary tier
	h.settle()
	vfAssert("overwrite-accepted", ok)
	h.sec.mayFail = true
	s.Set(2, 54, 1, 0) // evicts one of the two; its demotion may fail
	h.settle()
	h.sec.mayFail = false
	vfReach("evicted")
	vfAssert("failed-demotion:memory-within-max-size", h.memCost() <= 1)
	v, hit, err := s.GetWithSecodary(1)
	vfAssert("failed-demotion:never-older-than-last-completed-set", err == nil && vfImplies(hit, v == 53))
	vfAssert("failed-demotion:error-handler-called-per-failure", h.sec.handled == h.sec.failures)
}

// ZZ_C20_BarrierWithSave: a SaveCache runs concurrently with a writer that stores two keys and then waits. Whatever
// SaveCache does with the policy lock and the write queue, when the writer's Wait returns both of its Sets have
// been applied (cost accounted, entry known to the policy).
func ZZ_C20_BarrierWithSave() {
	var notes []zzNote
	s := zzThreadedStore(10, &notes)
	s.Set(9, 900, 1, 0)
	s.Wait()
	vfSetPreemptions(vfConfig("PRE", 1))
	done := make(chan int, 2)
	go func() {
		err := s.Persist(1, vfGhostStream())
		vfAssert("save-succeeds", err == nil)
		done <- 1
	}()
	go func() {
		s.Set(1, 101, 2, 0)
		s.Set(2, 201, 3, 0)
		s.Wait()
		for k := uint64(1); k <= 2; k++ {
			e, ok := s.shards[zzIndex(s, k)].hashmap[k]
			vfAssert("barrier:write-before-wait-applied", ok && e.policyWeight == e.weight.Load() && e.meta.prev != nil)
		}
		vfAssert("barrier:cost-accounted", s.policy.weightedSize == 6)
		done <- 1
	}()
	<-done
	<-done
	vfSetPreemptions(0)
	s.Wait()
	zzAccounted(s, "final")
	vfReach("all-returned")
}

// ZZ_C14_SaveLoadHybrid: a hybrid cache is saved and loaded into a new store that uses the same secondary tier
// (which outlives the store). The secondary tier holds an older copy of key 1 (demoted, perhaps promoted again),
// memory the newer value. After the round trip the newer value is evicted from the new store: the older copy is
// never served, whichever way the eviction treats the restored entry.
func ZZ_C14_SaveLoadHybrid() {
	h := zzHybNew(1, false)
	s := h.s
	s.Set(1, 51, 1, 0)
	h.settle()
	s.Set(2, 52, 1, 0) // key 1 demoted
	h.settle()
	if vfConfig("PROMOTE", 1) == 1 {
		v0, hit0, _ := s.GetWithSecodary(1)
		vfAssert("promoted", hit0 && v0 == 51)
		h.settle()
	}
	ok := s.Set(1, 53, 1, 0)
	h.settle()
	vfAssert("overwrite-accepted", ok)
	_, inMem := s.shards[zzIndex(s, 1)].hashmap[1]
	vfAssert("newer-value-in-memory", inMem)
	w := vfGhostStream()
	err := s.Persist(3, w)
	vfAssert("save-succeeds", err == nil)
	var notes []zzNote
	dst := NewStore[uint64, uint64](&StoreOptions[uint64, uint64]{
		MaxSize: 1, SecondaryCache: h.sec, Workers: 1, Probability: 1,
		Listener: func(k, v uint64, r RemoveReason) { notes = append(notes, zzNote{k, v, r}) },
	})
	vfQuiesce()
	err = dst.Recover(3, vfStreamReader(w))
	vfAssert("load-succeeds", err == nil)
	e, restored := dst.shards[zzIndex(dst, 1)].hashmap[1]
	vfAssert("newer-value-restored", restored && e.value == 53)
	vfReach("loaded")
	v1, hit1, _ := dst.GetWithSecodary(1)
	vfAssert("restored-value-served", hit1 && v1 == 53)
	dst.Set(2, 54, 1, 0) // one of the two leaves memory
	dst.Wait()
	vfQuiesce()
	dst.Wait()
	v, hit, err2 := dst.GetWithSecodary(1)
	vfAssert("save-load:never-older-than-last-completed-set", err2 == nil && vfImplies(hit, v == 53))
	if vfConfig("EXPIRE", 0) == 0 {
		vfAssert("save-load:evicted-entry-still-retrievable", hit)
	}
}

// ZZ_C18_PanicThenOtherKey: a load of key 1 ends in a panic that the caller recovers; then another key of the same
// shard is loaded (the pooled call record may be the same object); then key 1 is requested again. Key 1 never
// yields the value loaded for the other key, and its loader runs again.
func ZZ_C18_PanicThenOtherKey() {
	vfSetPoolMode(vfConfig("POOLMODE", 2))
	s := zzThreadedStore(10, nil)
	ls := NewLoadingStore(s)
	calls := 0
	mode := 0 // 0 value, 1 panic, 2 error
	ls.Loader(func(ctx context.Context, key uint64) (Loaded[uint64], error) {
		calls++
		if mode == 1 {
			panic("loader failed")
		}
		if mode == 2 {
			return Loaded[uint64]{}, zzErrSec
		}
		return Loaded[uint64]{Value: 1000 + key, Cost: 1}, nil
	})
	mode = 1 + vfChoose("failure", 2)
	func() {
		defer func() { _ = recover() }()
		_, _ = ls.Get(context.Background(), 1)
	}()
	mode = 0
	k2 := uint64(2) // another key of the same shard (same duplicate-suppression group) under the harness hash
	for zzIndex(s, k2) != zzIndex(s, 1) {
		k2++
	}
	v2, err2 := ls.Get(context.Background(), k2)
	vfAssert("other-key-loaded", err2 == nil && v2 == 1000+k2)
	before := calls
	v1, err1 := ls.Get(context.Background(), 1)
	vfReach("third-get")
	vfAssert("key-never-yields-another-keys-value", err1 == nil && v1 == 1001)
	vfAssert("failed-load-not-cached", calls == before+1)
}

// ZZ_C06_PoolStaleUpdate: entry pool on, no capacity pressure. A writer overwrites key 1 with a new cost and is
// delayed before it queues its event; meanwhile the entry expires and is collected, and key 1 is stored again
// (the pool may hand back the very same object). The delayed event belongs to the old incarnation. Afterwards
// every accepted value is still there, nothing was evicted, and the accounting is exact.
func ZZ_C06_PoolStaleUpdate() {
	var notes []zzNote
	s := zzThreadedStore(10, &notes) // POOL=1 from the configuration
	origin := vfClockNow()
	c := vfI64("updateCost")
	vfAssume(c >= 2)
	vfAssume(c <= 9)
	s.Set(1, 101, 1, time.Duration(1<<29))
	s.Wait()
	vfSetPreemptions(vfConfig("PRE", 1))
	done := make(chan int, 2)
	go func() {
		s.Set(1, 102, c, 0) // overwrite, cost change, deadline kept
		done <- 1
	}()
	go func() {
		vfClockSet(origin + 1<<31) // the deadline passes
		vfFireTickers()
		s.Wait()
		// (no quiesce here: it would let the delayed writer finish) schedules in which the tick has not been
		// processed by now are not the ones this program is about
		_, still := s.shards[zzIndex(s, 1)].hashmap[1]
		vfAssume(!still)
		vfReach("collected-while-writer-delayed")
		s.Set(1, 103, 2, 0) // the key is stored again (perhaps in the recycled object)
		s.Wait()
		done <- 1
	}()
	<-done
	<-done
	vfSetPreemptions(0)
	s.Wait()
	vfQuiesce()
	s.Wait()
	vfReach("drained")
	zzAccounted(s, "pool-stale-update")
	zzViews(s, "pool-stale-update")
	for _, n := range notes {
		vfAssert("no-eviction-without-capacity-pressure", n.reason != EVICTED)
	}
	e, ok := s.shards[zzIndex(s, 1)].hashmap[1]
	if ok {
		vfAssert("resident-value-is-an-accepted-one", e.value == 102 || e.value == 103)
	}
}

// ZZ_C01_LoadDeleteLoad: three clients on a loading cache. One loads key 1; a second reads it and, having seen
// the loaded value, deletes the key; a third, started only after that Delete has returned, asks for the key
// through the loader again. The recorded history must be linearizable: the third call can only return a value
// loaded (or stored) after the Delete, never the deleted one, however it interleaves with the wind-up of the
// first call.
func ZZ_C01_LoadDeleteLoad() {
	s := zzThreadedStore(10, nil)
	ls := NewLoadingStore(s)
	zzLoads = 0
	ls.Loader(func(ctx context.Context, key uint64) (Loaded[uint64], error) {
		zzLoads++
		return Loaded[uint64]{Value: 900 + uint64(zzLoads), Cost: 1}, nil
	})
	h := &zzHist{}
	loadGet := func() {
		o := h.begin(4, 1, 0)
		before := zzLoads
		v, _ := ls.Get(context.Background(), 1)
		o.val = v
		o.hit = zzLoads == before
		h.end(o)
	}
	vfSetPreemptions(vfConfig("PRE", 1))
	done := make(chan int, 3)
	sig := make(chan int, 1)
	go func() { loadGet(); done <- 1 }()
	go func() {
		o := h.begin(1, 1, 0)
		v, hit := s.Get(1)
		o.hit, o.val = hit, v
		h.end(o)
		if hit {
			d := h.begin(2, 1, 0)
			s.Delete(1)
			h.end(d)
			vfReach("deleted-after-seeing-the-loaded-value")
		}
		sig <- 1
		done <- 1
	}()
	go func() {
		<-sig
		loadGet()
		done <- 1
	}()
	for i := 0; i < 3; i++ {
		<-done
	}
	vfSetPreemptions(0)
	vfReach("history-complete")
	if vfIsReplay() {
		for _, o := range h.ops {
			vfPrint("op kind", o.kind)
			vfPrint("   call", o.call)
			vfPrint("   ret", o.ret)
			vfPrint("   hit", o.hit)
			vfPrint("   val", o.val)
		}
	}
	vfAssert("loading-history-is-linearizable", h.linearizable())
}

// ZZ_C08_StoreOnce: Store level, distinct keys. A reader fills a stripe and is stalled with its batch behind the
// policy lock; a second reader then fills the same stripe with hits of other keys. When the lock is released,
// no key has been credited with more read events than it was read (a batch is never delivered twice, and never
// with items another reader put there), and nothing panics.
func ZZ_C08_StoreOnce() {
	s := zzThreadedStore(100, nil)
	for k := uint64(1); k <= 4; k++ {
		s.Set(k, 100+k, 1, 0)
	}
	s.Wait()
	est := func(k uint64) uint {
		h, _ := s.index(k)
		return s.policy.sketch.Estimate(h)
	}
	var e0 [5]uint
	for k := uint64(1); k <= 4; k++ {
		e0[k] = est(k)
	}
	s.policyMu.Lock() // as SaveCache or a long maintenance run would
	done := make(chan int, 2)
	reader := func(a, b uint64) {
		for i := 0; i < 8; i++ {
			s.Get(a)
			s.Get(b)
		}
		done <- 1
	}
	go reader(1, 3)
	vfQuiesce() // the first reader holds its batch and waits for the policy lock
	go reader(2, 4)
	vfQuiesce()
	s.policyMu.Unlock()
	<-done
	<-done
	vfReach("both-readers-done")
	s.policyMu.Lock()
	for k := uint64(1); k <= 4; k++ {
		vfAssert("no-key-credited-with-more-reads-than-it-had", est(k) <= e0[k]+8)
	}
	s.policyMu.Unlock()
}

// ZZ_C03_AfterLoad: a cache that has been up for U nanoseconds (U, TTL and downtime symbolic, up to 2^BITS ns) holds an entry with a TTL; it
// is saved and loaded into a new cache (which adopts the saved clock origin) after a symbolic delay; the entry is
// then read at a symbolic instant before the first maintenance tick of the new cache. A hit implies that the
// deadline has not been reached, although the new cache's cached clock dates from before the load.
func ZZ_C03_AfterLoad() {
	vfSetHashMode(1)
	StripedBufferSize = 1
	origin := vfClockNow()
	src := NewStore[uint64, uint64](&StoreOptions[uint64, uint64]{MaxSize: 10})
	vfQuiesce()
	U := vfI64("uptime")
	ttl := vfI64("ttl")
	d := vfI64("downtime")
	d2 := vfI64("readDelay")
	lim := int64(1) << uint(vfConfig("BITS", 40))
	vfAssume(U >= 0)
	if vfConfig("UFIX", 0) == 1 {
		vfAssume(U == 1<<36) // quick tier: one uptime (68 s), TTL / downtime / read delay symbolic
	} else {
		vfAssume(U <= lim)
	}
	vfAssume(ttl >= 1)
	vfAssume(ttl <= lim)
	vfAssume(d >= 0)
	vfAssume(d <= lim)
	vfAssume(d2 >= 0)
	vfAssume(d2 < 1<<29) // the read comes before the first tick of the new cache
	vfClockSet(origin + U)
	ok := src.Set(1, 7, 1, time.Duration(ttl))
	vfAssert("set-accepted", ok)
	src.Wait()
	w := vfGhostStream()
	err := src.Persist(1, w)
	vfAssert("save-succeeds", err == nil)
	E := U + ttl // deadline, relative to the saved origin
	vfClockSet(origin + U + d)
	dst := NewStore[uint64, uint64](&StoreOptions[uint64, uint64]{MaxSize: 10})
	vfQuiesce()
	err = dst.Recover(1, vfStreamReader(w))
	vfAssert("load-succeeds", err == nil)
	vfClockSet(origin + U + d + d2)
	W := U + d + d2
	v, hit := dst.Get(1)
	vfReach("read-after-load")
	vfAssert("after-load:no-hit-at-or-after-deadline", vfImplies(hit, W < E))
	vfAssert("after-load:value", vfImplies(hit, v == 7))
	vfAssert("after-load:live-entry-restored", vfImplies(U+d < E, hit || W >= E))
}

// ZZ_C04_AfterLoad: persistence x timer wheel. A cache that has been up for UP nanoseconds (a configuration constant,
// so that every wheel level is visited by some run) holds an entry with a TTL; it is saved and loaded into a new
// cache, which adopts the saved clock origin while its own wheel time starts near zero. The maintenance ticks of the
// new cache (one per second) then have to collect the entry on time: never before its deadline, and at the latest
// by the first tick that comes a wheel tick (2^30 ns) plus a maintenance period after it. TTL and downtime symbolic.
func ZZ_C04_AfterLoad() {
	vfSetHashMode(1)
	StripedBufferSize = 1
	origin := vfClockNow()
	src := NewStore[uint64, uint64](&StoreOptions[uint64, uint64]{MaxSize: 10})
	vfQuiesce()
	U := int64(vfConfig("UPS", 70)) * 1000000000 // uptime of the saved cache in seconds
	ttl := vfI64("ttl")
	d := vfI64("downtime")
	vfAssume(ttl >= 1)
	vfAssume(ttl <= 1<<31)
	vfAssume(d >= 0)
	vfAssume(d <= 1<<30)
	vfClockSet(origin + U)
	ok := src.Set(1, 7, 1, time.Duration(ttl))
	vfAssert("set-accepted", ok)
	src.Set(2, 8, 1, 0) // a bystander without deadline
	src.Wait()
	w := vfGhostStream()
	err := src.Persist(1, w)
	vfAssert("save-succeeds", err == nil)
	E := U + ttl
	vfClockSet(origin + U + d)
	var notes []zzNote
	dst := NewStore[uint64, uint64](&StoreOptions[uint64, uint64]{MaxSize: 10, Listener: func(k, v uint64, r RemoveReason) {
		notes = append(notes, zzNote{k, v, r})
	}})
	vfQuiesce()
	err = dst.Recover(1, vfStreamReader(w))
	vfAssert("load-succeeds", err == nil)
	const period = int64(1000000000)
	T := U + d
	for i := 0; i < 5; i++ {
		T += period
		vfClockSet(origin + T)
		vfFireTickers()
		vfQuiesce()
		dst.Wait()
		_, present := dst.shards[zzIndex(dst, 1)].hashmap[1]
		vfAssert("after-load:not-collected-before-deadline", vfImplies(!present, E <= T))
		vfAssert("after-load:collected-within-a-tick-and-a-period", vfImplies(T >= E+(1<<30)+period, !present))
	}
	vfReach("ticks-done")
	_, present := dst.shards[zzIndex(dst, 1)].hashmap[1]
	vfAssert("after-load:collected-in-the-end", !present)
	n := 0
	for _, x := range notes {
		if x.key == 1 {
			n++
			vfAssert("after-load:reported-expired", x.reason == EXPIRED && x.val == 7)
		}
		vfAssert("after-load:bystander-stays", x.key != 2)
	}
	vfAssert("after-load:reported-at-most-once", n <= 1)
	vfAssert("after-load:restored-entry-reported", vfImplies(U+d < E, n == 1))
	zzOnWheel(dst, "after-load")
}

// ZZ_C10_HybridGetAfterClose: once Close has returned, a hybrid Get misses also for a key whose copy lives in the
// secondary tier (demoted before the Close), and a hybrid loading Get reports ErrCacheClosed.
func ZZ_C10_HybridGetAfterClose() {
	h := zzHybNew(1, false)
	s := h.s
	s.Set(1, 101, 1, 0)
	h.settle()
	s.Set(2, 201, 1, 0) // one of the two is demoted
	h.settle()
	_, in1 := h.sec.m[1]
	_, in2 := h.sec.m[2]
	vfAssert("one-key-demoted", in1 || in2)
	ls := NewLoadingStore(s)
	ls.Loader(func(ctx context.Context, key uint64) (Loaded[uint64], error) {
		return Loaded[uint64]{Value: 900 + key, Cost: 1}, nil
	})
	s.Close()
	vfReach("closed")
	for k := uint64(1); k <= 2; k++ {
		_, hit, _ := s.GetWithSecodary(k)
		vfAssert("get-after-close-misses-in-both-tiers", !hit)
		_, err := ls.Get(context.Background(), k)
		vfAssert("loading-get-after-close-reports-closed", err == ErrCacheClosed)
	}
	vfAssert("nothing-resident-after-close", s.Len() == 0)
}

// reload: SaveCache, then LoadCache into a new store that uses the same secondary tier (which outlives the store).
func (h *zzHyb) reload() {
	w := vfGhostStream()
	err := h.s.Persist(1, w)
	vfAssert("reload:save-succeeds", err == nil)
	old := h.s
	dst := NewStore[uint64, uint64](&StoreOptions[uint64, uint64]{
		MaxSize: 1, SecondaryCache: h.sec, Workers: vfConfig("WORKERS", 1), Probability: 1,
		Listener: func(k, v uint64, r RemoveReason) { h.notes = append(h.notes, zzNote{k, v, r}) },
	})
	vfQuiesce()
	err = dst.Recover(1, vfStreamReader(w))
	vfAssert("reload:load-succeeds", err == nil)
	old.Close()
	h.s = dst
}

// ZZ_C14_SeqX: the sequential hybrid histories of ZZ_C14_Seq with two more operations: a save/load round trip
// into a new store over the same secondary tier, and (FAIL=1) secondary writes that fail by choice. One client,
// N operations out of: Set k1 (with / without TTL), Set k2 (pushes k1 out of the one-slot memory tier), hybrid
// Get k1, hybrid Delete k1, clock advance, reload. A hit carries the last completed Set, is never a deleted or
// expired value; without failures nothing that was set is lost.
func ZZ_C14_SeqX() {
	mayFail := vfConfig("FAIL", 0) == 1
	h := zzHybNew(1, mayFail)
	if mayFail {
		h.lossy = true
	}
	N := vfConfig("N", 4)
	for i := 0; i < N; i++ {
		menu := 6
		if vfConfig("RELOAD", 0) == 1 {
			menu = 7 // the reload doubles the number of background goroutines: thorough tier, short histories only
		}
		op := vfChoose("op", menu)
		s := h.s
		switch op {
		case 0, 1:
			h.next++
			var ttl int64
			if op == 1 {
				ttl = 1 << 29
			}
			_, residentBefore := s.shards[zzIndex(s, 1)].hashmap[1]
			ok := s.Set(1, h.next, 1, time.Duration(ttl))
			vfAssert("set-accepted", ok)
			h.live, h.val = true, h.next
			if ttl != 0 {
				h.deadline = h.now + ttl
			} else if !residentBefore || (h.deadline != 0 && h.deadline <= h.now) {
				h.deadline = 0
			}
		case 2:
			h.next++
			s.Set(2, h.next, 1, 0)
		case 3:
			v, hit, err := s.GetWithSecodary(1)
			vfAssert("get-no-error", err == nil)
			expired := h.live && h.deadline != 0 && h.deadline <= h.now
			if hit {
				vfReach("hit")
				vfAssert("hit-only-live-key", h.live)
				vfAssert("hit-value-is-last-completed-set", v == h.val)
				vfAssert("hit-not-expired", !expired)
			} else if h.live && !expired && !h.lossy {
				vfFail("value-found-in-some-tier")
			}
		case 4:
			err := s.DeleteWithSecondary(1)
			vfAssert("delete-no-error", err == nil)
			h.live = false
			h.deadline = 0
		case 5:
			h.now += 1 << 30
			vfClockSet(h.origin + h.now)
			s.timerwheel.clock.RefreshNowCache()
		case 6:
			h.reload()
			vfReach("reloaded")
		}
		h.settle()
		vfAssert("memory-tier-within-max-size", h.memCost() <= 1)
		vfAssert("error-handler-called-per-failure", h.sec.handled == h.sec.failures)
	}
	vfReach("sequence-done")
}
