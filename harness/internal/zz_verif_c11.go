//go:build verif

package internal

import (
	"time"
)

// C11 / C12 — SaveCache / LoadCache. The repository's own Persist/Recover logic runs for real; encoding/gob and
// bytes.Buffer are a faithful value channel (block and entry granularity); byte layout is outside the model.

type zzSaved struct {
	key, val     uint64
	cost, expire int64
	region       uint8
	order        int
	freq         uint
}

// zzSourceCache builds a cache through the real API and returns what it holds after drain.
func zzSourceCache(capv int64) (*Store[uint64, uint64], []zzSaved, int64) {
	vfSetHashMode(1)
	StripedBufferSize = 1
	origin := vfClockNow()
	s := NewStore[uint64, uint64](&StoreOptions[uint64, uint64]{MaxSize: capv})
	vfQuiesce()
	n := vfConfig("N", 4)
	maxCost := int64(vfConfig("MAXCOST", 3))
	if sh := vfConfig("SHRUNK", 0); sh > 0 {
		// an adaptive split the hill climber reaches by its first move at this size: the window has given SHRUNK
		// units to the protected region (the sum of the two is invariant, C07's climb lemma). Set by hand because
		// reaching it through sample periods takes thousands of calls at MaxSize 1000.
		s.policy.window.capacity -= uint(sh)
		s.policy.slru.protected.capacity += uint(sh)
		vfReach("window-shrunk")
	}
	for i := 0; i < n; i++ {
		c := int64(1)
		if vfConfig("COSTS", 0) == 1 {
			c = vfI64("cost")
			vfAssume(c >= 1)
			vfAssume(c <= maxCost)
		}
		var ttl int64
		if i%2 == 1 {
			ttl = 1 << 29
		}
		s.Set(uint64(i+1), uint64(100+i), c, time.Duration(ttl))
	}
	s.Wait()
	// a few hits so that entries move between regions and have non-zero frequency
	for r := 0; r < 2; r++ {
		for i := 0; i < 17; i++ {
			s.Get(1)
			s.Get(2)
		}
	}
	if hot := vfConfig("HOT", 0); hot > 0 {
		// a cache that was much fuller than what it saves: the first HOT keys are read until their counters
		// saturate in a sketch sized for all N, the others are deleted; the new cache sizes its sketch for
		// the survivors only, so the saved frequencies add up to more than one of its sample periods
		for r := 0; r < 16; r++ {
			for i := 0; i < hot; i++ {
				s.Get(uint64(i + 1))
			}
		}
		for i := hot; i < n; i++ {
			s.Delete(uint64(i + 1))
		}
		s.Wait()
		vfReach("hot-survivors")
	}
	if vfConfig("HITALL", 0) == 1 {
		// promotions without a following write: the protected region is above its size when the cache is saved
		for r := 0; r < 16; r++ {
			for i := 0; i < n; i++ {
				s.Get(uint64(i + 1))
			}
		}
		if s.policy.slru.protected.Len() > int(s.policy.slru.protected.capacity) {
			vfReach("protected-above-its-size")
		}
	}
	s.Wait()
	if vfConfig("ADAPT", 0) == 1 {
		// let the hill climber move the window through the real policy: a hit-heavy sample period, then a
		// miss-heavy one (the second adjustment goes the other way and is not clamped)
		round := func(hits, newKeys int, base uint64) {
			for i := 0; i < hits; i++ {
				s.Get(uint64(1 + i%n))
			}
			for i := 0; i < newKeys; i++ {
				s.Set(base+uint64(i), base+uint64(i), 1, 0)
			}
			s.Wait()
		}
		sample := int(s.policy.sketch.SampleSize)
		round(sample+16, 2, 1000)
		round(0, sample+16, 2000)
		round(32, 4, 5000)
		def := uint(float32(capv) * 0.01)
		if def < 1 {
			def = 1
		}
		if s.policy.window.capacity != def {
			vfNote("windowAdapted", 1)
			vfReach("window-adapted")
		} else {
			vfNote("windowAdapted", 0)
		}
	} else {
		vfNote("windowAdapted", 0)
	}
	return s, zzSnapshot(s), origin
}

// zzSnapshot lists what the policy holds, region by region, most recent first.
func zzSnapshot(s *Store[uint64, uint64]) []zzSaved {
	var saved []zzSaved
	add := func(l *List[uint64, uint64], region uint8) {
		o := 0
		for e := l.Front(); e != nil; e = e.Next(l.listType) {
			saved = append(saved, zzSaved{e.key, e.value, e.weight.Load(), e.expire.Load(), region, o,
				s.policy.sketch.Estimate(s.hasher.Hash(e.key))})
			o++
		}
	}
	add(s.policy.window, LIST_WINDOW)
	add(s.policy.slru.probation, LIST_PROBATION)
	add(s.policy.slru.protected, LIST_PROTECTED)
	return saved
}

func zzRegionOf(e *Entry[uint64, uint64]) uint8 {
	switch {
	case e.flag.IsWindow():
		return LIST_WINDOW
	case e.flag.IsProbation():
		return LIST_PROBATION
	case e.flag.IsProtected():
		return LIST_PROTECTED
	}
	return 0
}

// ZZ_C11_RoundTrip: save and load into a cache of the same size after an arbitrary clock advance.
func ZZ_C11_RoundTrip() {
	capv := int64(vfConfig("CAP", 10))
	src, saved, origin := zzSourceCache(capv)
	vfSplitBlocks(vfConfig("SPLIT", 0) == 1)
	w := vfGhostStream()
	err := src.Persist(7, w)
	vfAssert("save-succeeds", err == nil)
	vfSplitBlocks(false)
	// saving may complete the policy's pending housekeeping (demotions from an over-full protected region) but
	// loses nothing: the saved cache is the source cache as it is after the call
	after := zzSnapshot(src)
	vfAssert("save-keeps-every-entry", len(after) == len(saved))
	for _, a := range saved {
		found := false
		for _, b := range after {
			if a.key == b.key && a.val == b.val && a.cost == b.cost && a.expire == b.expire {
				found = true
			}
		}
		vfAssert("save-keeps-every-entry", found)
	}
	saved = after
	zzAccounted(src, "source-after-save")
	d := vfI64("advance")
	vfAssume(d >= 0)
	vfAssume(d <= 1<<31)
	vfClockSet(origin + d)
	cap2 := int64(vfConfig("CAP2", int(capv)))
	dst := NewStore[uint64, uint64](&StoreOptions[uint64, uint64]{MaxSize: cap2})
	vfQuiesce()
	err = dst.Recover(7, vfStreamReader(w))
	vfReach("loaded")
	vfNote("smallerTarget", vfIte64(cap2 < capv, 1, 0))
	vfNote("nonUnitCosts", int64(vfConfig("COSTS", 0)))
	vfAssert("load-succeeds", err == nil)
	now := dst.timerwheel.clock.NowNano()
	same := cap2 == capv
	var restored int
	dst.RangeEntry(func(e *Entry[uint64, uint64]) {
		restored++
		found := false
		for _, sv := range saved {
			if sv.key == e.key {
				found = true
				vfAssert("restored-value", e.value == sv.val)
				vfAssert("restored-weight", e.weight.Load() == sv.cost && e.policyWeight == sv.cost)
				vfAssert("restored-deadline", e.expire.Load() == sv.expire)
				if same {
					vfAssert("restored-region", zzRegionOf(e) == sv.region)
				}
				vfAssert("restored-frequency", dst.policy.sketch.Estimate(dst.hasher.Hash(e.key)) >= sv.freq)
				vfAssert("expired-entries-not-restored", vfOr(sv.expire == 0, sv.expire >= now))
			}
		}
		vfAssert("restored-entry-was-saved", found)
	})
	if same {
		for _, sv := range saved {
			_, ok := dst.shards[zzIndex(dst, sv.key)].hashmap[sv.key]
			vfAssert("live-saved-entry-restored", vfImplies(vfOr(sv.expire == 0, sv.expire >= now), ok))
		}
		// relative order inside each region is preserved
		check := func(l *List[uint64, uint64], region uint8) {
			last := -1
			for e := l.Front(); e != nil; e = e.Next(l.listType) {
				for _, sv := range saved {
					if sv.key == e.key && sv.region == region {
						vfAssert("region-order-preserved", sv.order > last)
						last = sv.order
					}
				}
			}
		}
		check(dst.policy.window, LIST_WINDOW)
		check(dst.policy.slru.probation, LIST_PROBATION)
		check(dst.policy.slru.protected, LIST_PROTECTED)
	}
	// whatever is dropped for lack of room is dropped from the least recently used end of its region:
	// a restored entry never has a more recent, still live, unrestored neighbour in the saved region
	for _, a := range saved {
		for _, b := range saved {
			if a.region == b.region && a.order < b.order {
				_, okA := dst.shards[zzIndex(dst, a.key)].hashmap[a.key]
				_, okB := dst.shards[zzIndex(dst, b.key)].hashmap[b.key]
				liveA := vfOr(a.expire == 0, a.expire >= now)
				vfAssert("kept-from-most-recent-end", vfImplies(vfAnd(okB, liveA), okA))
			}
		}
	}
	// and what is restored keeps its relative order (checked above for the same size; here for any size)
	if !same {
		checkAny := func(l *List[uint64, uint64]) {
			lastOrder := map[uint8]int{}
			for e := l.Front(); e != nil; e = e.Next(l.listType) {
				for _, sv := range saved {
					if sv.key == e.key {
						prev, seen := lastOrder[sv.region]
						vfAssert("order-within-saved-region-preserved", !seen || sv.order > prev)
						lastOrder[sv.region] = sv.order
					}
				}
			}
		}
		checkAny(dst.policy.window)
		checkAny(dst.policy.slru.probation)
		checkAny(dst.policy.slru.protected)
	}
	vfNote("smallerTarget", vfIte64(cap2 < capv, 1, 0))
	vfNote("nonUnitCosts", int64(vfConfig("COSTS", 0)))
	zzAccounted(dst, "restored")
	zzOnWheel(dst, "restored")
	// the saved clock origin is adopted: deadlines keep their meaning
	vfAssert("clock-origin-adopted", dst.timerwheel.clock.Start.UnixNano() == src.timerwheel.clock.Start.UnixNano())
}

var vfNoteMetaHit bool

// ZZ_C12_Faults: Recover on a damaged or truncated stream.
func ZZ_C12_Faults() {
	vfNoteMetaHit = false
	capv := int64(vfConfig("CAP", 10))
	src, saved, _ := zzSourceCache(capv)
	vs := uint64(7)
	w := vfGhostStream()
	err := src.Persist(vs, w)
	vfAssert("save-succeeds", err == nil)
	n := vfStreamLen(w)
	vfAssert("stream-has-meta-regions-and-end", n >= 5)
	nf := vfConfig("FAULTS", 1)
	fault := -1
	onlyTruncation := true // the stream is a proper prefix of the saved one and nothing else happened to it
	for f := 0; f < nf; f++ {
		op := vfChoose("fault", 9)
		i := vfChoose("block", n)
		j := 0
		switch op {
		case 3, 6:
			j = vfChoose("other", n)
		case 4:
			j = []int{1, 2, 3, 4, 9, 255}[vfChoose("type", 6)]
		case 7, 8:
			j = vfChoose("item", 3)
		}
		if !vfStreamOp(w, op, i, j) {
			vfAssume(false)
		}
		if i == 0 || ((op == 3 || op == 6) && j == 0) {
			vfNoteMetaHit = true
		}
		if op != 0 {
			onlyTruncation = false
		}
		if f == 0 {
			fault = op
			vfNote("fault", int64(op))
			vfNote("faultBlock", int64(i))
			vfNote("faultArg", int64(j))
		}
		if vfNoteMetaHit {
			vfNote("metaHit", 1)
		} else {
			vfNote("metaHit", 0)
		}
	}
	vl := vs
	if vfConfig("VERSION", 0) == 1 {
		vl = 8
		vfNote("versionMismatch", 1)
	}
	// CAP2: the loading cache may be smaller than the saved one (regions fill up before the stream ends)
	dst := NewStore[uint64, uint64](&StoreOptions[uint64, uint64]{MaxSize: int64(vfConfig("CAP2", int(capv)))})
	vfQuiesce()
	err = dst.Recover(vl, vfStreamReader(w))
	vfReach("recover-returned")
	// every loaded entry equals a saved one
	count := 0
	dst.RangeEntry(func(e *Entry[uint64, uint64]) {
		count++
		found := false
		for _, sv := range saved {
			if sv.key == e.key && sv.val == e.value && e.expire.Load() <= sv.expire+0 && (sv.expire == 0) == (e.expire.Load() == 0) {
				found = true
			}
		}
		vfAssert("loaded-entry-equals-a-saved-entry", found)
	})
	if fault == 0 && onlyTruncation {
		vfAssert("truncated-stream-is-an-error", err != nil)
	}
	if vl != vs {
		// the metadata block carries the version: when the fault destroyed or displaced that block the loader
		// cannot know the version, but it must still refuse the stream
		metaHit := vfNoteMetaHit
		if metaHit {
			vfAssert("wrong-version-stream-without-metadata-rejected", err != nil)
		} else {
			vfAssert("version-mismatch-reported", err == VersionMismatch)
		}
		vfAssert("nothing-loaded-under-wrong-version", count == 0)
	}
	if err == nil {
		vfReach("accepted")
	}
}
