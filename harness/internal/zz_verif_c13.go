//go:build verif

package internal

import (
	"context"
	"errors"
	"runtime"
	"time"
)

// C13 — loading cache: one load in flight per key, result shared, failures not cached.

var zzErrLoad = errors.New("load failed")

type zzCallRes struct {
	val      uint64
	err      error
	panicked bool
	returned bool // Do/Get returned normally
}

// ZZ_C13_Group: the real singleflight Group with N callers of one key and every loader outcome.
func ZZ_C13_Group() {
	vfSetPoolMode(vfConfig("POOLMODE", 1))
	vfSetPreemptions(vfConfig("PRE", 1))
	N := vfConfig("CALLERS", 2)
	g := NewGroup[uint64, uint64]()
	// an earlier, finished round on the same group (its call record goes back to the pool with whatever it holds)
	if pre := vfChoose("preRound", 3); pre > 0 {
		_, _, _ = g.Do(1, func() (uint64, error) {
			if pre == 1 {
				return 0, zzErrLoad
			}
			return 55, nil
		})
	}
	outcome := vfChoose("outcome", 4)
	vfNote("outcome", int64(outcome))
	running, invocations := 0, 0
	fn := func() (uint64, error) {
		invocations++
		me := invocations
		running++
		vfAssert("one-load-in-flight", running == 1)
		vfYield()
		running--
		switch outcome {
		case 1:
			return 0, zzErrLoad
		case 2:
			panic("loader panic")
		case 3:
			runtime.Goexit()
		}
		return 100 + uint64(me), nil
	}
	res := make([]zzCallRes, N)
	done := make(chan int, N+1)
	other := vfConfig("OTHER", 0) == 1
	if other {
		// a caller of another key shares the pool of call records: a record handed back too early is
		// overwritten under the eyes of a caller that still reads it
		vfSetRaceDetector(true)
	}
	for i := 0; i < N; i++ {
		i := i
		go func() {
			defer func() {
				if r := recover(); r != nil {
					res[i].panicked = true
				}
				done <- 1
			}()
			v, err, _ := g.Do(1, fn)
			res[i] = zzCallRes{val: v, err: err, returned: true}
		}()
	}
	var otherVal uint64
	var otherErr error
	if other {
		go func() {
			otherVal, otherErr, _ = g.Do(2, func() (uint64, error) { return 777, nil })
			done <- 1
		}()
		<-done
	}
	for i := 0; i < N; i++ {
		<-done
	}
	vfSetPreemptions(0)
	vfReach("all-callers-finished")
	if other {
		vfAssertNoRace("call-record-not-shared-while-read")
		vfAssert("other-key-gets-its-own-result", otherErr == nil && otherVal == 777)
	}
	vfAssert("loader-ran", invocations >= 1 && invocations <= N)
	for i := 0; i < N; i++ {
		switch outcome {
		case 0:
			vfAssert("value-from-an-invocation", res[i].returned && res[i].err == nil && res[i].val >= 101 && res[i].val <= 100+uint64(invocations))
		case 1:
			vfAssert("error-reaches-every-caller", res[i].returned && res[i].err == zzErrLoad)
		case 2:
			vfAssert("panic-reaches-every-caller", res[i].panicked && !res[i].returned)
		case 3:
			vfAssert("goexit-reaches-every-caller", !res[i].panicked && !res[i].returned)
		}
	}
	// nothing is left in flight and nothing is cached: a later call runs the loader again and returns
	_, inflight := g.m[1]
	vfAssert("no-call-left-in-flight", !inflight)
	before := invocations
	outcome = 0
	v, err, _ := g.Do(1, fn)
	vfAssert("next-call-loads-again", invocations == before+1 && err == nil && v == 100+uint64(invocations))
}

// ZZ_C13_Loading: LoadingStore.Get with concurrent callers on one key (and an unrelated Set in the same shard).
func ZZ_C13_Loading() {
	s := zzThreadedStore(10, nil)
	ls := NewLoadingStore(s)
	vfSetPreemptions(vfConfig("PRE", 1))
	N := vfConfig("CALLERS", 2)
	outcome := vfChoose("outcome", 4)
	vfNote("outcome", int64(outcome))
	origin := vfClockNow()
	_ = origin
	running, invocations := 0, 0
	ls.Loader(func(ctx context.Context, key uint64) (Loaded[uint64], error) {
		invocations++
		me := invocations
		running++
		vfAssert("one-load-in-flight", running == 1)
		vfYield()
		running--
		switch outcome {
		case 1:
			return Loaded[uint64]{}, zzErrLoad
		case 2:
			panic("loader panic")
		case 3:
			runtime.Goexit()
		}
		return Loaded[uint64]{Value: 100 + uint64(me), Cost: 2, TTL: time.Duration(1 << 29)}, nil
	})
	res := make([]zzCallRes, N)
	done := make(chan int, N)
	for i := 0; i < N; i++ {
		i := i
		go func() {
			defer func() {
				if r := recover(); r != nil {
					res[i].panicked = true
				}
				done <- 1
			}()
			v, err := ls.Get(context.Background(), 1)
			res[i] = zzCallRes{val: v, err: err, returned: true}
		}()
	}
	for i := 0; i < N; i++ {
		<-done
	}
	vfSetPreemptions(0)
	vfReach("all-callers-finished")
	// C16: every loading Get counts as exactly one hit or one miss, also when it shared another caller's load or
	// ended in an error, a panic or Goexit
	st := s.Stats()
	vfAssert("every-call-counted-once", st.Hits()+st.Misses() == uint64(N))
	for i := 0; i < N; i++ {
		switch outcome {
		case 0:
			vfAssert("value-from-an-invocation", res[i].returned && res[i].err == nil && res[i].val >= 101 && res[i].val <= 100+uint64(invocations))
		case 1:
			vfAssert("error-reaches-caller", res[i].returned && res[i].err == zzErrLoad)
		case 2:
			vfAssert("panic-reaches-caller", res[i].panicked && !res[i].returned)
		case 3:
			vfAssert("goexit-reaches-caller", !res[i].panicked && !res[i].returned)
		}
	}
	// the shard is not left blocked
	ok := s.Set(17, 1700, 1, 0) // some other key
	vfAssert("shard-usable-after-load", ok)
	s.Wait()
	shard := s.shards[zzIndex(s, 1)]
	e, present := shard.hashmap[1]
	if outcome == 0 {
		// admitted exactly as Set(key, value, cost, ttl) would have been
		vfAssert("loaded-value-stored", present && e.value == 100+uint64(invocations))
		if present {
			vfAssert("loaded-cost-stored", e.weight.Load() == 2 && e.policyWeight == 2)
			vfAssert("loaded-deadline-stored", e.expire.Load() == 1<<29)
			vfAssert("loaded-entry-scheduled", e.meta.wheelPrev != nil)
		}
		before := invocations
		v, err := ls.Get(context.Background(), 1)
		vfAssert("successful-load-is-cached", err == nil && invocations == before && v == 100+uint64(invocations))
	} else {
		vfAssert("failure-not-cached", !present)
		before := invocations
		outcome = 0
		v, err := ls.Get(context.Background(), 1)
		vfAssert("next-get-loads-again", err == nil && invocations == before+1 && v == 100+uint64(invocations))
	}
	s.Wait()
	zzAccounted(s, "after-load")
}

// ZZ_C13_LoadingWithWriter: a Set or Delete on the key interleaved with its load.
func ZZ_C13_LoadingWithWriter() {
	s := zzThreadedStore(10, nil)
	ls := NewLoadingStore(s)
	vfSetPreemptions(vfConfig("PRE", 1))
	invocations, running := 0, 0
	fails := vfChoose("loaderFails", 2) == 1
	writerDoneInsideLoad := false
	writerDone := false
	ls.Loader(func(ctx context.Context, key uint64) (Loaded[uint64], error) {
		invocations++
		running++
		vfAssert("one-load-in-flight", running == 1)
		before := writerDone
		vfYield()
		if writerDone && !before {
			writerDoneInsideLoad = true
		}
		running--
		if fails {
			return Loaded[uint64]{}, zzErrLoad
		}
		return Loaded[uint64]{Value: 100 + uint64(invocations), Cost: 1}, nil
	})
	del := vfChoose("writerDeletes", 2) == 1
	var got uint64
	var gerr error
	done := make(chan int, 2)
	go func() {
		got, gerr = ls.Get(context.Background(), 1)
		done <- 1
	}()
	go func() {
		if del {
			s.Delete(1)
		} else {
			s.Set(1, 777, 1, 0)
		}
		writerDone = true
		done <- 1
	}()
	<-done
	<-done
	vfSetPreemptions(0)
	s.Wait()
	vfReach("both-finished")
	// load and store are one atomic step with respect to writers of the key: a Set/Delete of the key cannot
	// start and finish while the loader is running (it would then be overwritten by, or resurrect, an older value)
	vfAssert("no-writer-of-the-key-completes-inside-its-load", !writerDoneInsideLoad)
	if gerr == nil {
		vfAssert("caller-gets-loaded-or-written-value", got == 777 || (got == 101 && invocations == 1))
	} else {
		vfAssert("only-the-loader-error", gerr == zzErrLoad && fails)
	}
	e, present := s.shards[zzIndex(s, 1)].hashmap[1]
	if present {
		vfAssert("final-value-from-a-completed-operation", e.value == 777 || e.value == 101)
		vfAssert("failed-load-stores-nothing", !(fails && e.value == 101))
	}
	if !del && !present {
		vfFail("written-value-lost") // capacity 10: nothing evicts it
	}
	zzAccounted(s, "after-load-and-write")
	// the shard and the key are usable afterwards
	s.Set(1, 888, 1, 0)
	v, err := ls.Get(context.Background(), 1)
	vfAssert("key-usable-afterwards", err == nil && v == 888)
}

type zzIdErr struct{ id int }

func (e *zzIdErr) Error() string { return "load failed" }

// ZZ_C13_NotCached: every caller calls again as soon as its first call has returned. A call never receives the
// result of a loader run that was already over (handed to some caller) when the call started: neither a value nor an error is cached by the
// duplicate-suppression table.
func ZZ_C13_NotCached() {
	vfSetPoolMode(vfConfig("POOLMODE", 1))
	vfSetPreemptions(vfConfig("PRE", 1))
	N := vfConfig("CALLERS", 2)
	g := NewGroup[uint64, uint64]()
	fail := vfChoose("outcome", 2) == 1
	started, delivered := 0, 0 // delivered: highest run whose result some caller has already been handed
	fn := func() (uint64, error) {
		started++
		me := started
		vfYield()
		if fail {
			return 0, &zzIdErr{me}
		}
		return uint64(me), nil
	}
	done := make(chan int, N)
	for i := 0; i < N; i++ {
		go func() {
			for round := 0; round < 2; round++ {
				deliveredAtStart := delivered
				v, err, _ := g.Do(1, fn)
				id := int(v)
				if fail {
					ie, ok := err.(*zzIdErr)
					vfAssert("error-reaches-caller", ok)
					if ok {
						id = ie.id
					}
				} else {
					vfAssert("value-reaches-caller", err == nil)
				}
				// a run whose result had already been handed to some caller when this call started is over:
				// this call must be served by a later run (a run that is still being wound up may be shared)
				vfAssert("result-of-a-run-not-over-before-the-call", id > deliveredAtStart)
				if id > delivered {
					delivered = id
				}
			}
			done <- 1
		}()
	}
	for i := 0; i < N; i++ {
		<-done
	}
	vfSetPreemptions(0)
	vfReach("all-callers-finished")
	_, inflight := g.m[1]
	vfAssert("no-call-left-in-flight", !inflight)
}
