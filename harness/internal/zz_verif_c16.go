//go:build verif

package internal

import (
	"context"
	"time"
)

// C16 — counters and size views.

// ZZ_C16_GetCounts: on every path of one real Get (hit, miss, expired; symbolic clocks) exactly one counter moves.
func ZZ_C16_GetCounts() {
	s, ls, origin := zzC03Store(vfConfig("LOADING", 0) == 1)
	t1 := vfI64("setAt")
	ttl := vfI64("ttl")
	W := vfI64("readAt")
	C := vfI64("cachedNow")
	vfAssume(t1 >= 0)
	vfAssume(t1 < zzMaxT)
	vfAssume(ttl >= 1)
	vfAssume(W >= t1)
	vfAssume(W < zzMaxT)
	vfAssume(C >= 0)
	vfAssume(C <= W)
	present := vfChoose("present", 2) == 1
	vfClockSet(origin + t1)
	if present {
		s.Set(1, 7, 1, time.Duration(ttl))
	}
	zzC03Clocks(s, origin, C, W)
	h0, m0 := s.Stats().Hits(), s.Stats().Misses()
	returned := false
	if ls == nil {
		_, returned = s.Get(1)
	} else {
		fail := vfChoose("loaderFails", 2) == 1
		loads := 0
		ls.Loader(func(ctx context.Context, key uint64) (Loaded[uint64], error) {
			loads++
			if fail {
				return Loaded[uint64]{}, zzErrLoad
			}
			return Loaded[uint64]{Value: 9, Cost: 1}, nil
		})
		_, err := ls.Get(context.Background(), 1)
		returned = loads == 0 && err == nil // answered from the cache
	}
	vfReach("get-done")
	h1, m1 := s.Stats().Hits(), s.Stats().Misses()
	vfAssert("exactly-one-counter-moves", h1+m1 == h0+m0+1)
	vfAssert("hits-count-returned-values", vfImplies(returned, h1 == h0+1))
	vfAssert("misses-count-the-rest", vfImplies(!returned, m1 == m0+1))
}

// ZZ_C16_Counter: the striped counter under two concurrent adders at atomic granularity.
func ZZ_C16_Counter() {
	vfSetAtomicVisible(true)
	vfSetPoolMode(vfConfig("POOLMODE", 1))
	vfSetPreemptions(vfConfig("PRE", 2))
	c := NewUnsignedCounter()
	done := make(chan int, 2)
	for i := 0; i < 2; i++ {
		go func() {
			c.Add(1)
			done <- 1
		}()
	}
	<-done
	<-done
	vfReach("adds-done")
	vfAssert("no-lost-increment", c.Value() == 2)
}

// ZZ_C16_Views: after drain Len, EstimatedSize and Range agree with the resident set; Range stops when told.
func ZZ_C16_Views() {
	s := zzThreadedStore(int64(vfConfig("CAP", 3)), nil)
	origin := vfClockNow()
	n := vfConfig("N", 4)
	for i := 0; i < n; i++ {
		c := vfI64("cost")
		vfAssume(c >= 1)
		vfAssume(c <= 2)
		ttl := int64(0)
		if i == 1 {
			ttl = 1 << 29
		}
		s.Set(uint64(i+1), uint64(100+i), c, time.Duration(ttl))
	}
	s.Delete(2)
	s.Wait()
	zzViews(s, "views")
	d := vfI64("advance")
	vfAssume(d >= 0)
	vfAssume(d <= 1<<31)
	vfClockSet(origin + d)
	// Range: each resident unexpired key once, with its current value
	seen := map[uint64]int{}
	s.Range(func(k, v uint64) bool {
		seen[k]++
		e := s.shards[zzIndex(s, k)].hashmap[k]
		vfAssert("range-current-value", e != nil && e.value == v)
		return true
	})
	s.RangeEntry(func(e *Entry[uint64, uint64]) {
		exp := e.expire.Load()
		live := vfOr(exp == 0, exp > d)
		vfAssert("range-visits-each-live-key-once", vfImplies(live, seen[e.key] == 1))
		vfAssert("range-skips-expired", vfImplies(!live, seen[e.key] == 0))
	})
	// stops when told
	calls := 0
	s.Range(func(k, v uint64) bool {
		calls++
		return false
	})
	vfReach("views-done")
	vfAssert("range-stops-when-told", calls <= 1)
}
