//go:build verif

package internal

import (
	"context"
	"math"
	"time"
)

// C03 — no entry is served at or after its deadline.
// Clock readings are symbolic: t1 = time of the Set, W = time of the read, C = the reading the cached
// clock was last refreshed at (any instant <= W: "however long maintenance is delayed").
// All times are nanoseconds since cache start; the construction instant is the executor's clock origin.

const zzMaxT = int64(1) << 62

func zzSat(a, b int64) int64 {
	// oracle's own saturating add (b > 0)
	return vfIte64(a > math.MaxInt64-b, math.MaxInt64, a+b)
}

func zzC03Store(loading bool) (*Store[uint64, uint64], *LoadingStore[uint64, uint64], int64) {
	origin := vfClockNow()
	s := NewStore[uint64, uint64](&StoreOptions[uint64, uint64]{MaxSize: 10})
	var ls *LoadingStore[uint64, uint64]
	if loading {
		ls = NewLoadingStore(s)
	}
	return s, ls, origin
}

// refresh the cached clock at instant c, then move real time to w
func zzC03Clocks(s *Store[uint64, uint64], origin, c, w int64) {
	vfClockSet(origin + c)
	s.timerwheel.clock.RefreshNowCache()
	vfClockSet(origin + w)
}

func ZZ_C03_Get() {
	s, _, origin := zzC03Store(false)
	t1 := vfI64("setAt")
	ttl := vfI64("ttl")
	W := vfI64("readAt")
	C := vfI64("cachedNow")
	vfAssume(t1 >= 0)
	vfAssume(t1 < zzMaxT)
	vfAssume(ttl >= 1)
	vfAssume(W >= t1)
	vfAssume(W < zzMaxT)
	vfAssume(C >= 0)
	vfAssume(C <= W)
	vfClockSet(origin + t1)
	ok := s.Set(1, 7, 1, time.Duration(ttl))
	vfAssert("set-accepted", ok)
	E := zzSat(t1, ttl)
	vfNote("deadline", E)
	vfNote("staleNs", W-C)
	zzC03Clocks(s, origin, C, W)
	v, hit := s.Get(1)
	vfReach("read-done")
	if hit {
		vfReach("hit")
		vfAssert("value", v == 7)
	}
	vfAssert("no-hit-at-or-after-deadline", vfImplies(hit, W < E))
	// with a fresh cached clock the entry is served right up to its deadline (deadline not earlier than promised)
	vfAssert("served-before-deadline-when-clock-fresh", vfImplies(vfAnd(C == W, W < E), hit))
	vfAssert("overflowing-ttl-never-expires", vfImplies(vfAnd(E == math.MaxInt64, C == W), hit))
}

func ZZ_C03_Range() {
	s, _, origin := zzC03Store(false)
	t1 := vfI64("setAt")
	ttl := vfI64("ttl")
	W := vfI64("readAt")
	vfAssume(t1 >= 0)
	vfAssume(t1 < zzMaxT)
	vfAssume(ttl >= 1)
	vfAssume(W >= t1)
	vfAssume(W < zzMaxT)
	vfClockSet(origin + t1)
	s.Set(1, 7, 1, time.Duration(ttl))
	s.Set(2, 8, 1, 0)
	E := zzSat(t1, ttl)
	vfClockSet(origin + W)
	seen1, seen2 := 0, 0
	s.Range(func(k, v uint64) bool {
		if k == 1 {
			seen1++
			vfAssert("range-value", v == 7)
		}
		if k == 2 {
			seen2++
		}
		return true
	})
	vfReach("range-done")
	vfAssert("range-no-visit-at-or-after-deadline", vfImplies(seen1 > 0, W < E))
	vfAssert("range-visits-live-entry-once", vfImplies(W < E, seen1 == 1))
	vfAssert("range-visits-ttl-less-entry", seen2 == 1)
}

// a later SetWithTTL replaces the deadline (both directions)
func ZZ_C03_Reset() {
	s, _, origin := zzC03Store(false)
	t1 := vfI64("setAt")
	ttl1 := vfI64("ttl1")
	t2 := vfI64("setAt2")
	ttl2 := vfI64("ttl2")
	W := vfI64("readAt")
	C := vfI64("cachedNow")
	vfAssume(t1 >= 0)
	vfAssume(ttl1 >= 1)
	vfAssume(t2 >= t1)
	vfAssume(ttl2 >= 1)
	vfAssume(W >= t2)
	vfAssume(W < zzMaxT)
	vfAssume(C >= 0)
	vfAssume(C <= W)
	vfClockSet(origin + t1)
	s.Set(1, 7, 1, time.Duration(ttl1))
	vfClockSet(origin + t2)
	ok := s.Set(1, 9, 1, time.Duration(ttl2))
	vfAssert("second-set-accepted", ok)
	E2 := zzSat(t2, ttl2)
	vfNote("staleNs", W-C)
	zzC03Clocks(s, origin, C, W)
	v, hit := s.Get(1)
	vfReach("read-done")
	vfAssert("no-hit-at-or-after-new-deadline", vfImplies(hit, W < E2))
	vfAssert("new-value", vfImplies(hit, v == 9))
	vfAssert("served-until-new-deadline-when-clock-fresh", vfImplies(vfAnd(C == W, W < E2), hit))
}

// loading cache: the loader's TTL is a deadline like any other
func ZZ_C03_Loading() {
	_, ls, origin := zzC03Store(true)
	t1 := vfI64("loadAt")
	ttl := vfI64("ttl")
	W := vfI64("readAt")
	C := vfI64("cachedNow")
	vfAssume(t1 >= 0)
	vfAssume(t1 < zzMaxT)
	vfAssume(ttl >= 1)
	vfAssume(W >= t1)
	vfAssume(W < zzMaxT)
	vfAssume(C >= 0)
	vfAssume(C <= W)
	loads := 0
	ls.Loader(func(ctx context.Context, key uint64) (Loaded[uint64], error) {
		loads++
		return Loaded[uint64]{Value: 100 + uint64(loads), Cost: 1, TTL: time.Duration(ttl)}, nil
	})
	vfClockSet(origin + t1)
	v1, err := ls.Get(context.Background(), 1)
	vfAssert("first-load", err == nil && v1 == 101 && loads == 1)
	E := zzSat(t1, ttl)
	vfNote("staleNs", W-C)
	zzC03Clocks(ls.Store, origin, C, W)
	v2, err2 := ls.Get(context.Background(), 1)
	vfReach("read-done")
	vfAssert("no-error", err2 == nil)
	served := loads == 1 // second Get answered from the cache
	vfAssert("loading-no-hit-at-or-after-deadline", vfImplies(served, W < E))
	vfAssert("loading-value", vfImplies(served, v2 == 101))
	vfAssert("loading-reload-value", vfImplies(!served, v2 == 102))
}
