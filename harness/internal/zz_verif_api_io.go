//go:build verif

package internal

import "io"

// Ghost streams for the gob stub: SaveCache writes block values into the stream, LoadCache reads them back.
func vfGhostStream() io.Writer
func vfStreamReader(w io.Writer) io.Reader
func vfStreamLen(w io.Writer) int
func vfSplitBlocks(b bool)

// vfStreamOp applies a block-level fault: 0 truncate to i blocks, 1 drop block i, 2 duplicate block i,
// 3 swap blocks i and j, 4 set the Type of block i to j, 5 damage the CheckSum field of block i,
// 6 replace the payload of block i by that of block j, 7 damage the payload of block i from item j on,
// 8 byte damage that still decodes: item j of block i carries a different value (checksum field untouched).
func vfStreamOp(w io.Writer, op, i, j int) bool
