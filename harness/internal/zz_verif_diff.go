//go:build verif

package internal

import (
	"math"
	"time"

	"github.com/Yiling-J/theine-go/internal/bf"
	"github.com/Yiling-J/theine-go/internal/hasher"
)

// Translator validation (DESIGN.md §2.7): deterministic scenarios over the repository's real code whose
// digests are computed twice - by the symbolic executor (everything concrete, so its interpreter and
// constant folder do all the work) and by the natively compiled code - and must agree.

func zzMix(h, v uint64) uint64 {
	h ^= v + 0x9e3779b97f4a7c15 + (h << 6) + (h >> 2)
	return h
}

func zzDiffSketch() uint64 {
	s := NewCountMinSketch()
	s.EnsureCapacity(100)
	var d uint64
	x := uint64(0x1234567)
	for i := 0; i < 3000; i++ {
		x = x*6364136223846793005 + 1442695040888963407
		h := x >> 7
		if i%3 == 0 {
			h &= 0xff // heavy hitters
		}
		if s.Add(h) {
			d = zzMix(d, uint64(i))
		}
		if i%97 == 0 {
			d = zzMix(d, uint64(s.Estimate(h)))
		}
	}
	s.Addn(0xdeadbeef, 9)
	d = zzMix(d, uint64(s.Estimate(0xdeadbeef)))
	for _, w := range s.Table {
		d = zzMix(d, w)
	}
	return zzMix(d, uint64(s.Additions))
}

func zzDiffWheel() uint64 {
	tw := NewTimerWheel[uint64, uint64](100)
	tw.nanos = 0
	var d uint64
	es := []*Entry[uint64, uint64]{}
	exp := []int64{1, 5e8, 1e9 + 1, 3e9, 59e9, 61e9, 70e9, 3599e9, 3700e9, 86500e9, 200000e9, 600000e9, int64(1) << 49, (int64(1) << 49) + 5}
	for i, e := range exp {
		en := NewEntry[uint64, uint64](uint64(i), uint64(i), 1, e)
		es = append(es, en)
		tw.schedule(en)
		l, s := tw.findIndex(e)
		d = zzMix(d, uint64(l*100+s))
	}
	now := int64(0)
	steps := []int64{1e9, 1e9, 1e9, 5e8, 60e9, 1e9, 8e9, 1e9, 3600e9, 1e9, 100e9, 90000e9, 1e9, 500000e9, 1e9, 1e9}
	for _, st := range steps {
		now += st
		tw.advance(now, func(en *Entry[uint64, uint64], r RemoveReason) {
			d = zzMix(d, en.key*1000+uint64(r))
			d = zzMix(d, uint64(now))
		})
		if now > 3e9 && es[3].meta.wheelPrev != nil {
			es[3].expire.Store(now + 2e9)
			tw.schedule(es[3])
		}
	}
	for _, en := range es {
		if en.meta.wheelPrev != nil {
			d = zzMix(d, en.key+7777)
		}
	}
	return d
}

func zzDiffPolicy() uint64 {
	var d uint64
	for _, c := range []uint{1, 2, 3, 15, 100, 1000, 12345} {
		t := NewTinyLfu[uint64, uint64](c, hasher.NewHasher[uint64](nil))
		d = zzMix(d, uint64(t.window.capacity))
		d = zzMix(d, uint64(t.slru.protected.capacity))
		d = zzMix(d, uint64(math.Float32bits(t.step)))
	}
	t := NewTinyLfu[uint64, uint64](1000, hasher.NewHasher[uint64](nil))
	t.removeCallback = func(e *Entry[uint64, uint64]) { d = zzMix(d, e.key+5000) }
	var es []*Entry[uint64, uint64]
	for i := 0; i < 40; i++ {
		e := NewEntry[uint64, uint64](uint64(i), uint64(i), int64(1+i%5), 0)
		es = append(es, e)
		t.Set(e)
	}
	for i := 0; i < 40; i += 3 {
		t.Access(ReadBufItem[uint64, uint64]{entry: es[i], hash: uint64(i) * 77})
	}
	for i := 0; i < 40; i += 7 {
		es[i].policyWeight += 3
		t.UpdateCost(es[i], 3)
	}
	t.Remove(es[5], true)
	// adaptive climber with scripted sample counters
	for r := 0; r < 6; r++ {
		t.hitsInSample = uint64(10 + r*37)
		t.missesInSample = uint64(200 - r*31)
		t.climb()
		d = zzMix(d, uint64(int64(t.amount)))
		d = zzMix(d, uint64(math.Float32bits(t.step)))
		d = zzMix(d, uint64(math.Float32bits(t.hr)))
		t.resizeWindow()
		d = zzMix(d, uint64(t.window.capacity)*1000003+uint64(t.slru.protected.capacity))
	}
	for _, l := range []*List[uint64, uint64]{t.window, t.slru.probation, t.slru.protected} {
		d = zzMix(d, uint64(l.len)*1000+uint64(l.count))
		for e := l.Front(); e != nil; e = e.Next(l.listType) {
			d = zzMix(d, e.key)
		}
	}
	return zzMix(d, uint64(t.weightedSize))
}

func zzDiffBloomAndBits() uint64 {
	var d uint64
	f := bf.New(0.01)
	x := uint64(99)
	for i := 0; i < 500; i++ {
		x = x*6364136223846793005 + 1442695040888963407
		if f.Insert(x) {
			d = zzMix(d, uint64(i))
		}
	}
	f.EnsureCapacity(2000)
	d = zzMix(d, uint64(f.M)*31+uint64(f.K))
	for _, v := range []uint32{0, 1, 2, 3, 7, 8, 9999, 1 << 31} {
		d = zzMix(d, uint64(RoundUpPowerOf2(v)))
	}
	for _, v := range []uint{1, 2, 3, 1000, 1 << 40, (1 << 40) + 1} {
		d = zzMix(d, uint64(next2Power(v)))
	}
	var fl Flag
	fl.SetProbation(true)
	fl.SetWindow(true)
	fl.SetProbation(false)
	fl.SetDeleted(true)
	d = zzMix(d, uint64(uint8(fl.Flags)))
	st := newStats(7, 3)
	d = zzMix(d, math.Float64bits(st.HitRatio()))
	var dur time.Duration = 90 * time.Second
	d = zzMix(d, uint64(dur.Nanoseconds()))
	return d
}

func zzDiffBuffer() uint64 {
	var d uint64
	b := NewBuffer[uint64, uint64]()
	e := &Entry[uint64, uint64]{}
	for i := 0; i < 100; i++ {
		pb := b.Add(ReadBufItem[uint64, uint64]{entry: e, hash: uint64(i)})
		if pb != nil {
			for _, it := range pb.Returned {
				d = zzMix(d, it.hash)
			}
			if i%32 != 15 {
				b.Free()
			}
		}
		if i == 60 {
			b.Free()
		}
	}
	return zzMix(d, b.tail.Load()*1000+b.head.Load())
}

func ZZ_Diff_All() {
	vfDigest("sketch", zzDiffSketch())
	vfDigest("wheel", zzDiffWheel())
	vfDigest("policy", zzDiffPolicy())
	vfDigest("bloom-bits-flags", zzDiffBloomAndBits())
	vfDigest("buffer", zzDiffBuffer())
}
