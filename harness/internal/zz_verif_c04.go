//go:build verif

package internal

import "time"

// C04 — expired entries are reclaimed within about one tick of their deadline.
//
// Inductive invariant over the real TimerWheel for one tracked entry (ghost: wheel time N, deadline E):
//   the entry is on exactly one wheel list, namely wheel[l][(E>>shift[l]) & (buckets[l]-1)], and
//     l == 0      : (N>>shift[0]) <= (E>>shift[0])       its finest slot has not been passed
//     l in 1..4   : (N>>shift[l]) <  (E>>shift[l])       the coarse tick containing the deadline has not begun
// The oracle's constants (finest tick 2^30 ns, maintenance period bound G) belong to the property.

const (
	zzTick0 = int64(1) << 30
	zzTMax  = int64(1) << 62
)

var zzShift = [5]uint{30, 36, 42, 47, 49}
var zzBuckets = [5]int64{64, 64, 32, 4, 1}

type zzLoc struct {
	level, slot, count int
}

func zzLocate(tw *TimerWheel[uint64, uint64], e *Entry[uint64, uint64]) zzLoc {
	r := zzLoc{level: -1, slot: -1}
	for l := 0; l < 5; l++ {
		for s := 0; s < len(tw.wheel[l]); s++ {
			if tw.wheel[l][s].Contains(e) {
				r.level, r.slot = l, s
				r.count++
			}
		}
	}
	return r
}

func zzInv(loc zzLoc, N, E int64) bool {
	l := loc.level
	tN := N >> zzShift[l]
	tE := E >> zzShift[l]
	slotOK := int64(loc.slot) == tE&(zzBuckets[l]-1)
	var timeOK bool
	if l == 0 {
		timeOK = tN <= tE
	} else {
		timeOK = tN < tE
	}
	return vfAnd(loc.count == 1, vfAnd(slotOK, timeOK))
}

// ZZ_C04_Base: a fresh placement by the real schedule() at wheel time N satisfies the invariant.
func ZZ_C04_Base() {
	tw := NewTimerWheel[uint64, uint64](8)
	N := vfI64("N")
	E := vfI64("E")
	vfAssume(N >= 0)
	vfAssume(E > N)
	vfAssume(E < zzTMax)
	tw.nanos = N
	e := &Entry[uint64, uint64]{}
	e.expire.Store(E)
	tw.schedule(e)
	loc := zzLocate(tw, e)
	vfNote("level", int64(loc.level))
	vfReach("placed")
	vfAssert("base-on-one-list", loc.count == 1)
	vfAssert("base-invariant", zzInv(loc, N, E))
}

// ZZ_C04_Step: from any invariant state, one real advance(N2) with N < N2 <= N+G.
func ZZ_C04_Step() {
	G := int64(vfConfig("G", 1<<31))
	tw := NewTimerWheel[uint64, uint64](8)
	S := vfI64("S")
	N := vfI64("N")
	E := vfI64("E")
	N2 := vfI64("N2")
	vfAssume(S >= 0)
	vfAssume(E > S)
	vfAssume(E < zzTMax)
	tw.nanos = S
	e := &Entry[uint64, uint64]{}
	e.expire.Store(E)
	tw.schedule(e)
	loc := zzLocate(tw, e)
	vfNote("level", int64(loc.level))
	vfAssume(N >= S)
	vfAssume(N < zzTMax)
	vfAssume(zzInv(loc, N, E)) // inductive hypothesis
	zzC04Pos(N)
	vfAssume(N2 > N)
	vfAssume(N2 < zzTMax)
	vfAssume(N2-N <= G)
	tw.nanos = N
	removed := 0
	var why RemoveReason
	tw.advance(N2, func(en *Entry[uint64, uint64], r RemoveReason) {
		if en == e {
			removed++
			why = r
		}
	})
	vfReach("advanced")
	vfAssert("removed-at-most-once", removed <= 1)
	vfAssert("not-early", vfImplies(removed > 0, E <= N2))
	vfAssert("reason-expired", vfImplies(removed > 0, why == EXPIRED))
	vfAssert("on-time", vfImplies(N2 >= E+zzTick0, removed == 1))
	loc2 := zzLocate(tw, e)
	if removed > 0 {
		vfReach("removed")
		vfAssert("removed-entry-off-wheel", loc2.count == 0 && e.meta.wheelPrev == nil && e.meta.wheelNext == nil)
	} else {
		vfReach("kept")
		vfAssert("no-loss", loc2.count == 1)
		if loc2.count == 1 {
			vfAssert("invariant-preserved", zzInv(loc2, N2, E))
		}
	}
}

// zzC04Pos optionally pins the slot position of wheel time N on each level (quick-tier bound; the
// thorough tier leaves all positions symbolic). Sub-tick offsets and all higher bits stay symbolic.
func zzC04Pos(N int64) {
	for l, name := range [4]string{"P0", "P1", "P2", "P3"} {
		if P := int64(vfConfig(name, -1)); P >= 0 {
			vfAssume((N>>zzShift[l])&(zzBuckets[l]-1) == P)
		}
	}
}

// ZZ_C04_Resched: a TTL change re-positions the entry so that the invariant refers to the new deadline only.
func ZZ_C04_Resched() {
	tw := NewTimerWheel[uint64, uint64](8)
	S := vfI64("S")
	N := vfI64("N")
	E := vfI64("E")
	E2 := vfI64("E2")
	vfAssume(S >= 0)
	vfAssume(E > S)
	vfAssume(E < zzTMax)
	tw.nanos = S
	e := &Entry[uint64, uint64]{}
	e.expire.Store(E)
	tw.schedule(e)
	loc := zzLocate(tw, e)
	vfAssume(N >= S)
	vfAssume(N < zzTMax)
	vfAssume(zzInv(loc, N, E))
	vfAssume(E2 > N)
	vfAssume(E2 < zzTMax)
	tw.nanos = N
	e.expire.Store(E2)
	tw.schedule(e) // what sinkWrite does for an UPDATE with a changed deadline
	loc2 := zzLocate(tw, e)
	vfNote("level", int64(loc2.level))
	vfReach("rescheduled")
	vfAssert("resched-on-one-list", loc2.count == 1)
	vfAssert("resched-invariant-for-new-deadline", zzInv(loc2, N, E2))
}

// ZZ_C04_Deschedule: removing an entry takes it off the wheel and leaves the other entry of the slot in place.
func ZZ_C04_Deschedule() {
	tw := NewTimerWheel[uint64, uint64](8)
	S := vfI64("S")
	E := vfI64("E")
	vfAssume(S >= 0)
	vfAssume(E > S)
	vfAssume(E < zzTMax)
	Eb := E // same deadline, hence the same slot list
	tw.nanos = S
	a := &Entry[uint64, uint64]{}
	b := &Entry[uint64, uint64]{}
	a.expire.Store(E)
	b.expire.Store(Eb)
	tw.schedule(a)
	tw.schedule(b)
	la := zzLocate(tw, a)
	lb := zzLocate(tw, b)
	vfAssume(la.level == lb.level && la.slot == lb.slot) // same slot list
	first := vfBool("removeFirst")
	if first {
		tw.deschedule(a)
	} else {
		tw.deschedule(b)
		a, b = b, a
	}
	vfReach("descheduled")
	vfAssert("descheduled-off-wheel", zzLocate(tw, a).count == 0 && a.meta.wheelPrev == nil && a.meta.wheelNext == nil)
	l2 := zzLocate(tw, b)
	vfAssert("neighbour-stays", l2.count == 1 && l2.level == la.level && l2.slot == la.slot)
}

// ZZ_C04_Slot3: three entries sharing one slot list; the traversal neither skips nor revisits.
func ZZ_C04_Slot3() {
	G := int64(vfConfig("G", 1<<31))
	tw := NewTimerWheel[uint64, uint64](8)
	S := vfI64("S")
	N := vfI64("N")
	N2 := vfI64("N2")
	vfAssume(S >= 0)
	var es [3]*Entry[uint64, uint64]
	var E [3]int64
	var loc [3]zzLoc
	tw.nanos = S
	for i := 0; i < 3; i++ {
		E[i] = vfI64("E")
		vfAssume(E[i] > S)
		vfAssume(E[i] < zzTMax)
		if i > 0 {
			// same coarse tick and same remaining-duration class as the first entry: same slot list
			l := loc[0].level
			vfAssume(E[i]>>zzShift[l] == E[0]>>zzShift[l])
			if l > 0 {
				vfAssume(E[i]-S >= int64(tw.spans[l]))
			}
			if l < 4 {
				vfAssume(E[i]-S < int64(tw.spans[l+1]))
			}
		}
		es[i] = &Entry[uint64, uint64]{key: uint64(i)}
		es[i].expire.Store(E[i])
		tw.schedule(es[i])
		loc[i] = zzLocate(tw, es[i])
		if i > 0 {
			vfAssume(loc[i].level == loc[0].level && loc[i].slot == loc[0].slot)
		}
	}
	vfNote("level", int64(loc[0].level))
	vfAssume(N >= S)
	vfAssume(N < zzTMax)
	for i := 0; i < 3; i++ {
		vfAssume(zzInv(loc[i], N, E[i]))
	}
	zzC04Pos(N)
	vfAssume(N2 > N)
	vfAssume(N2 < zzTMax)
	vfAssume(N2-N <= G)
	tw.nanos = N
	var removed [3]int
	tw.advance(N2, func(en *Entry[uint64, uint64], r RemoveReason) {
		removed[en.key]++
	})
	vfReach("advanced")
	for i := 0; i < 3; i++ {
		vfAssert("slot3-removed-at-most-once", removed[i] <= 1)
		vfAssert("slot3-not-early", vfImplies(removed[i] > 0, E[i] <= N2))
		vfAssert("slot3-on-time", vfImplies(N2 >= E[i]+zzTick0, removed[i] == 1))
		l2 := zzLocate(tw, es[i])
		if removed[i] > 0 {
			vfAssert("slot3-removed-off-wheel", l2.count == 0)
		} else {
			vfAssert("slot3-no-loss", l2.count == 1)
			if l2.count == 1 {
				vfAssert("slot3-invariant-preserved", zzInv(l2, N2, E[i]))
			}
		}
	}
}

// ZZ_C04_Jump: an advance that jumps further than a full rotation of every wheel.
func ZZ_C04_Jump() {
	K := int64(vfConfig("K", 1234567))
	tw := NewTimerWheel[uint64, uint64](8)
	S := vfI64("S")
	N := vfI64("N")
	E := vfI64("E")
	N2 := vfI64("N2")
	vfAssume(S >= 0)
	vfAssume(E > S)
	vfAssume(E < zzTMax)
	tw.nanos = S
	e := &Entry[uint64, uint64]{}
	e.expire.Store(E)
	tw.schedule(e)
	loc := zzLocate(tw, e)
	vfNote("level", int64(loc.level))
	vfAssume(N >= S)
	vfAssume(N>>zzShift[0] == K) // all slot positions of N concrete, sub-tick offset symbolic
	vfAssume(zzInv(loc, N, E))
	vfAssume(N2 < zzTMax)
	vfAssume(N2-N >= int64(1)<<51) // more than a full rotation of every level
	tw.nanos = N
	removed := 0
	tw.advance(N2, func(en *Entry[uint64, uint64], r RemoveReason) {
		if en == e {
			removed++
		}
	})
	vfReach("jumped")
	vfAssert("jump-removed-at-most-once", removed <= 1)
	vfAssert("jump-not-early", vfImplies(removed > 0, E <= N2))
	vfAssert("jump-reclaims-every-expired-entry", vfImplies(E <= N2, removed == 1))
	if removed == 0 {
		l2 := zzLocate(tw, e)
		vfAssert("jump-no-loss", l2.count == 1)
		if l2.count == 1 {
			vfAssert("jump-invariant-preserved", zzInv(l2, N2, E))
		}
	}
}

// ZZ_C04_Store: end to end through the Store: an entry with a short TTL, two maintenance ticks at symbolic
// instants at most 2^31 ns apart: never reported before its deadline, reported exactly once as EXPIRED by the
// first tick that is at least one finest tick past the deadline.
func ZZ_C04_Store() {
	var notes []zzNote
	s := zzThreadedStore(10, &notes)
	origin := vfClockNow()
	ttl := vfI64("ttl")
	t1 := vfI64("tick1")
	t2 := vfI64("tick2")
	vfAssume(ttl >= 1)
	vfAssume(ttl <= 1<<29)
	vfAssume(t1 > 0)
	vfAssume(t1 <= 1<<31)
	vfAssume(t2 > t1)
	vfAssume(t2-t1 <= 1<<31)
	s.Set(1, 100, 1, time.Duration(ttl))
	s.Wait()
	E := ttl
	vfClockSet(origin + t1)
	vfFireTickers()
	vfQuiesce()
	n1, _ := zzCount(notes, 1)
	vfAssert("store-not-early-1", vfImplies(n1 > 0, t1 >= E))
	vfAssert("store-on-time-1", vfImplies(t1 >= E+zzTick0, n1 == 1))
	vfClockSet(origin + t2)
	vfFireTickers()
	vfQuiesce()
	vfReach("two-ticks")
	n2, l2 := zzCount(notes, 1)
	vfAssert("store-not-early-2", vfImplies(n2 > 0, t2 >= E))
	vfAssert("store-on-time-2", vfImplies(t2 >= E+zzTick0, n2 == 1))
	vfAssert("store-at-most-once", n2 <= 1)
	if n2 == 1 {
		vfAssert("store-reason-expired", l2.reason == EXPIRED && l2.val == 100)
		vfAssert("store-gone", s.Len() == 0)
	}
	zzAccounted(s, "after-ticks")
}

// ZZ_C04_LateUpdate: a TTL update whose event is processed only after the new deadline and a tick have passed
// (slow maintenance): the bound must still refer to the new deadline.
func ZZ_C04_LateUpdate() {
	var notes []zzNote
	s := zzThreadedStore(10, &notes)
	origin := vfClockNow()
	s.Set(1, 100, 1, time.Duration(1<<40))
	s.Wait()
	ttl2 := vfI64("ttl2")
	vfAssume(ttl2 >= 1)
	vfAssume(ttl2 <= 1<<29)
	c2 := vfI64("cost2")
	vfAssume(c2 >= 1)
	vfAssume(c2 <= 3)
	s.Set(2, 200, 2, 0)                    // a bystander whose accounting must stay exact
	s.Set(1, 101, c2, time.Duration(ttl2)) // UPDATE (new deadline, possibly new cost) queued, not yet processed
	vfNote("lateUpdate", 1)
	vfClockSet(origin + 1<<31) // the new deadline has passed and two fine ticks have begun
	vfFireTickers()
	vfQuiesce() // ticker and maintenance run in either order
	vfClockSet(origin + 1<<32)
	vfFireTickers()
	vfQuiesce()
	vfClockSet(origin + 3<<31)
	vfFireTickers()
	vfQuiesce()
	vfReach("three-ticks")
	n, l := zzCount(notes, 1)
	vfAssert("late-update-reclaimed-within-bound", n == 1 && l.reason == EXPIRED && l.val == 101)
	s.Wait()
	zzAccounted(s, "late-update")
	zzViews(s, "late-update")
}

// ZZ_C04_StoreUpdate: a TTL change through the Store (none -> TTL, TTL -> shorter, TTL -> longer, TTL -> none kept):
// after the update is applied an entry with a deadline is on the wheel, and it is reclaimed by the first tick that
// is one finest tick past its current deadline.
func ZZ_C04_StoreUpdate() {
	var notes []zzNote
	s := zzThreadedStore(10, &notes)
	origin := vfClockNow()
	ttls := []int64{0, 1 << 28, 1 << 29}
	a := ttls[vfChoose("ttl1", 3)]
	b := ttls[vfChoose("ttl2", 3)]
	s.Set(1, 100, 1, time.Duration(a))
	if vfChoose("drainBetween", 2) == 1 {
		s.Wait()
	}
	s.Set(1, 101, 1, time.Duration(b))
	s.Wait()
	zzOnWheel(s, "after-update")
	E := b
	if b == 0 {
		E = a // an update without TTL keeps the deadline
	}
	vfNote("deadline", E)
	vfClockSet(origin + 1<<31)
	vfFireTickers()
	vfQuiesce()
	vfReach("ticked")
	n, l := zzCount(notes, 1)
	if E != 0 {
		vfAssert("updated-deadline-reclaimed", n == 1 && l.reason == EXPIRED && l.val == 101)
		vfAssert("updated-deadline-gone", s.Len() == 0)
	} else {
		vfAssert("no-deadline-not-reclaimed", n == 0 && s.Len() == 1)
	}
	zzAccounted(s, "after-tick")
}
