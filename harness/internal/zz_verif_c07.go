//go:build verif

package internal

import "github.com/Yiling-J/theine-go/internal/hasher"

// C07 — policy structure and bounds. One-step induction on the real TinyLfu from an arbitrary small valid state.
//
// Invariant I: each region list is well formed (count = number of entries, len = sum of their weights, every
// entry carries exactly its region's flag); weightedSize = sum of the three lens <= capacity;
// window.capacity >= 1; window.capacity + protected.capacity = W0 with both <= capacity; weights in 1..capacity.

const zzC07MaxCap = uint(1) << 60

type zzPol struct {
	t       *TinyLfu[uint64, uint64]
	all     []*Entry[uint64, uint64]
	evicted map[*Entry[uint64, uint64]]int
	w0      uint
}

func zzC07Build(nw, npb, npt int, withSample bool) *zzPol {
	vfSetHashMode(1)
	p := &zzPol{evicted: map[*Entry[uint64, uint64]]int{}}
	t := NewTinyLfu[uint64, uint64](10, hasher.NewHasher[uint64](nil))
	p.t = t
	C := vfUint("cap")
	vfAssume(C >= 1)
	vfAssume(C <= uint(1)<<uint(vfConfig("CAPBITS", 60)))
	Wc := vfUint("wcap")
	Pc := vfUint("pcap")
	vfAssume(Wc >= 1)
	vfAssume(Wc <= C)
	vfAssume(Pc <= C)
	vfAssume(Wc+Pc <= C)
	t.capacity = C
	t.window.capacity = Wc
	t.slru.protected.capacity = Pc
	t.slru.maxsize = C - Wc
	p.w0 = Wc + Pc
	t.sketch.Table = vfSymU64Slice("T", 64)
	t.sketch.Additions = vfUint("adds")
	vfAssume(t.sketch.Additions < t.sketch.SampleSize)
	key := uint64(1)
	var total uint
	mk := func() *Entry[uint64, uint64] {
		e := &Entry[uint64, uint64]{key: key}
		key++
		w := vfI64("w")
		vfAssume(w >= 1)
		vfAssume(uint(w) <= C)
		e.policyWeight = w
		e.weight.Store(w)
		total += uint(w)
		p.all = append(p.all, e)
		return e
	}
	for i := 0; i < nw; i++ {
		t.window.PushFront(mk())
	}
	for i := 0; i < npb; i++ {
		t.slru.probation.PushFront(mk())
	}
	for i := 0; i < npt; i++ {
		t.slru.protected.PushFront(mk())
	}
	vfAssume(total <= C)
	t.weightedSize = total
	t.removeCallback = func(e *Entry[uint64, uint64]) { p.evicted[e]++ }
	// cuts (recorded): the admission decision is an arbitrary boolean (admit() only reads the sketch and a
	// random number; its direction is checked in ZZ_C07_Admit) and sketch updates are skipped (C17 covers them)
	vfStubNondet(".admit")
	vfStub("CountMinSketch).Add")
	if withSample {
		t.hitsInSample = vfU64("hits")
		t.missesInSample = vfU64("misses")
		vfAssume(t.hitsInSample <= 1<<40)
		vfAssume(t.missesInSample <= 1<<40)
	}
	return p
}

// walk a region list by raw pointers; returns count, weight sum, and checks flags of members
func (p *zzPol) walk(l *List[uint64, uint64], tag string) (int, int64) {
	n := 0
	var sum int64
	e := l.root.meta.next
	prev := &l.root
	for e != &l.root {
		if e == nil || n > len(p.all)+1 {
			vfFail("list-well-formed")
			return n, sum
		}
		vfAssert("list-back-link", e.meta.prev == prev)
		n++
		sum += e.policyWeight
		isW, isPb, isPt := e.flag.IsWindow(), e.flag.IsProbation(), e.flag.IsProtected()
		switch l.listType {
		case LIST_WINDOW:
			vfAssert("region-flag", isW && !isPb && !isPt)
		case LIST_PROBATION:
			vfAssert("region-flag", !isW && isPb && !isPt)
		case LIST_PROTECTED:
			vfAssert("region-flag", !isW && !isPb && isPt)
		}
		prev = e
		e = e.meta.next
	}
	vfAssert("list-root-back-link", l.root.meta.prev == prev)
	return n, sum
}

func (p *zzPol) member(l *List[uint64, uint64], x *Entry[uint64, uint64]) int {
	c := 0
	n := 0
	for e := l.root.meta.next; e != &l.root && e != nil && n < len(p.all)+2; e = e.meta.next {
		if e == x {
			c++
		}
		n++
	}
	return c
}

func (p *zzPol) checkInvariant(afterGrowth bool) {
	t := p.t
	nw, sw := p.walk(t.window, "window")
	npb, spb := p.walk(t.slru.probation, "probation")
	npt, spt := p.walk(t.slru.protected, "protected")
	vfAssert("window-count", t.window.count == nw)
	vfAssert("window-len", t.window.len == sw)
	vfAssert("probation-count", t.slru.probation.count == npb)
	vfAssert("probation-len", t.slru.probation.len == spb)
	vfAssert("protected-count", t.slru.protected.count == npt)
	vfAssert("protected-len", t.slru.protected.len == spt)
	vfAssert("total-is-sum-of-regions", int64(t.weightedSize) == sw+spb+spt)
	if afterGrowth {
		vfAssert("total-within-capacity", t.weightedSize <= t.capacity)
	}
	vfAssert("window-capacity-at-least-1", t.window.capacity >= 1)
	vfAssert("window-capacity-no-wrap", t.window.capacity <= t.capacity)
	vfAssert("protected-capacity-no-wrap", t.slru.protected.capacity <= t.capacity)
	vfAssert("capacity-conserved", t.window.capacity+t.slru.protected.capacity == p.w0)
	for _, e := range p.all {
		m := p.member(t.window, e) + p.member(t.slru.probation, e) + p.member(t.slru.protected, e)
		ev := p.evicted[e]
		vfAssert("entry-in-one-region-or-evicted-once", (m == 1 && ev == 0) || (m == 0 && ev == 1))
		if m == 0 {
			vfAssert("evicted-entry-unlinked", e.meta.prev == nil && e.meta.next == nil && !e.flag.IsWindow() && !e.flag.IsProbation() && !e.flag.IsProtected())
		}
	}
}

func zzC07Shape() (int, int, int) {
	if vfConfig("NW", -1) >= 0 {
		// one pinned shape (used to reach larger regions in the quick tier)
		return vfConfig("NW", 0), vfConfig("NPB", 0), vfConfig("NPT", 0)
	}
	M := vfConfig("M", 2)
	nw := vfChoose("nw", M+1)
	npb := vfChoose("npb", M+1)
	npt := vfChoose("npt", M+1)
	if nw+npb+npt > vfConfig("MAXTOT", 100) {
		vfAssume(false) // shape outside this run's bound
	}
	return nw, npb, npt
}

func zzC07NoClimb(t *TinyLfu[uint64, uint64]) {
	t.hitsInSample = vfU64("hits")
	t.missesInSample = vfU64("misses")
	vfAssume(t.hitsInSample <= 1000)
	vfAssume(t.missesInSample <= 1000)
	vfAssume(uint(t.hitsInSample)+uint(t.missesInSample) <= t.sketch.SampleSize-2)
}

// ZZ_C07_Set: insert of a new entry (what sinkWrite does for a NEW event).
func ZZ_C07_Set() {
	nw, npb, npt := zzC07Shape()
	p := zzC07Build(nw, npb, npt, false)
	t := p.t
	zzC07NoClimb(t)
	e := &Entry[uint64, uint64]{key: 100}
	w := vfI64("wnew")
	vfAssume(w >= 1)
	vfAssume(uint(w) <= t.capacity)
	e.policyWeight = w
	p.all = append(p.all, e)
	vfStepLimit(200000, "eviction-terminates")
	t.Set(e)
	vfReach("set-done")
	p.checkInvariant(true)
}

// ZZ_C07_Access: a read of a tracked entry.
func ZZ_C07_Access() {
	nw, npb, npt := zzC07Shape()
	if nw+npb+npt == 0 {
		return
	}
	p := zzC07Build(nw, npb, npt, false)
	t := p.t
	zzC07NoClimb(t)
	i := vfChoose("which", len(p.all))
	e := p.all[i]
	before := t.weightedSize
	vfStepLimit(200000, "access-terminates")
	t.Access(ReadBufItem[uint64, uint64]{entry: e, hash: vfU64("h")})
	vfReach("access-done")
	p.checkInvariant(false)
	vfAssert("access-keeps-total", t.weightedSize == before)
	vfAssert("access-evicts-nothing", len(p.evicted) == 0)
}

// ZZ_C07_Update: cost change of a tracked entry (sinkWrite UPDATE: policyWeight += delta, then UpdateCost).
func ZZ_C07_Update() {
	nw, npb, npt := zzC07Shape()
	if nw+npb+npt == 0 {
		return
	}
	p := zzC07Build(nw, npb, npt, false)
	t := p.t
	zzC07NoClimb(t)
	i := vfChoose("which", len(p.all))
	e := p.all[i]
	nwt := vfI64("wupd")
	vfAssume(nwt >= 1)
	vfAssume(nwt <= int64(zzC07MaxCap)) // may exceed capacity: then the entry must evict itself
	delta := nwt - e.policyWeight
	e.policyWeight += delta
	vfStepLimit(200000, "eviction-terminates")
	t.UpdateCost(e, delta)
	vfReach("update-done")
	p.checkInvariant(true)
	vfAssert("oversize-entry-evicted", vfImplies(uint(nwt) > t.capacity, p.evicted[e] == 1))
}

// ZZ_C07_Remove: explicit removal (Delete / expiry path).
func ZZ_C07_Remove() {
	nw, npb, npt := zzC07Shape()
	if nw+npb+npt == 0 {
		return
	}
	p := zzC07Build(nw, npb, npt, false)
	t := p.t
	i := vfChoose("which", len(p.all))
	e := p.all[i]
	before := t.weightedSize
	w := e.policyWeight
	t.Remove(e, true)
	vfReach("remove-done")
	p.checkInvariant(true)
	vfAssert("remove-callback-once", p.evicted[e] == 1 && len(p.evicted) == 1)
	vfAssert("remove-total", t.weightedSize == before-uint(w))
}

// ZZ_C07_Climb: adaptive resize from an arbitrary valid state (float32 hill climber, symbolic step/hr/samples).
func ZZ_C07_Climb() {
	nw, npb, npt := zzC07Shape()
	p := zzC07Build(nw, npb, npt, true)
	t := p.t
	// step: finite, |step| <= capacity (as produced by the constructor and by climb itself)
	t.step = vfF32("step")
	t.hr = vfF32("hr")
	capf := float32(t.capacity)
	vfAssume(t.step <= capf)
	vfAssume(t.step >= -capf)
	vfAssume(t.hr >= 0)
	vfAssume(t.hr <= 1)
	vfAssume(t.capacity <= 1<<40)
	t.amount = 0
	before := t.weightedSize
	vfStepLimit(200000, "resize-terminates")
	t.climb()
	amt := t.amount
	vfAssert("climb-amount-clamped-protected", vfImplies(amt > 0, amt <= int(t.slru.protected.capacity)))
	vfAssert("climb-amount-clamped-window", vfImplies(amt < 0, -amt <= int(t.window.capacity-1)))
	vfAssert("climb-step-bounded", t.step <= capf && t.step >= -capf)
	t.resizeWindow()
	vfReach("climb-done")
	p.checkInvariant(false)
	vfAssert("resize-keeps-total", t.weightedSize == before)
	vfAssert("resize-evicts-nothing", len(p.evicted) == 0)
}

// ZZ_C07_Base: the constructor establishes I for small and large capacities.
func ZZ_C07_Base() {
	caps := []uint{1, 2, 3, 4, 5, 10, 100, 1000, 1 << 20}
	c := caps[vfChoose("cap", len(caps))]
	t := NewTinyLfu[uint64, uint64](c, hasher.NewHasher[uint64](nil))
	p := &zzPol{t: t, evicted: map[*Entry[uint64, uint64]]int{}, w0: t.window.capacity + t.slru.protected.capacity}
	vfReach("constructed")
	p.checkInvariant(true)
	vfAssert("base-capacity", t.capacity == c)
	vfAssert("base-regions-fit", t.window.capacity+t.slru.protected.capacity <= c)
	vfAssert("base-step-bounded", t.step <= float32(c) && t.step >= -float32(c))
}

// ZZ_C07_Admit: direction of the admission filter on the real sketch (arbitrary contents).
func ZZ_C07_Admit() {
	vfSetHashMode(1)
	t := NewTinyLfu[uint64, uint64](10, hasher.NewHasher[uint64](nil))
	t.sketch.Table = vfSymU64Slice("T", 64)
	cand, vict := uint64(1), uint64(2)
	cf := t.sketch.Estimate(t.hasher.Hash(cand))
	vf := t.sketch.Estimate(t.hasher.Hash(vict))
	r := t.admit(cand, vict)
	vfReach("admit-done")
	vfAssert("admit-more-frequent-candidate", vfImplies(cf > vf, r))
	vfAssert("reject-cold-candidate", vfImplies(vfAnd(cf <= vf, cf < ADMIT_HASHDOS_THRESHOLD), !r))
}
