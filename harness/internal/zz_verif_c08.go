//go:build verif

package internal

// C08 — the lossy read buffer never invents, never duplicates, never wedges.
// Items are tagged through their hash field; the entry pointer is a fixed dummy.

type zzBufLog struct {
	b         *Buffer[uint64, uint64]
	e         *Entry[uint64, uint64]
	added     map[uint64]bool
	delivered map[uint64]int
	batches   int
	next      uint64
}

func zzBufNew() *zzBufLog {
	return &zzBufLog{b: NewBuffer[uint64, uint64](), e: &Entry[uint64, uint64]{}, added: map[uint64]bool{}, delivered: map[uint64]int{}, next: 1}
}

// add performs one real Add; a returned batch is recorded but NOT freed (the caller decides when).
func (l *zzBufLog) add() *PolicyBuffers[uint64, uint64] {
	tag := l.next
	l.next++
	l.added[tag] = true
	pb := l.b.Add(ReadBufItem[uint64, uint64]{entry: l.e, hash: tag})
	if pb != nil {
		l.batches++
		for _, it := range pb.Returned {
			vfAssert("delivered-item-was-added", l.added[it.hash] && it.entry == l.e)
			l.delivered[it.hash]++
			vfAssert("delivered-at-most-once", l.delivered[it.hash] == 1)
		}
	}
	return pb
}

// ZZ_C08_LateFree (call granularity): a batch is handed back late, after j further Adds; afterwards the
// stripe must still deliver.
func ZZ_C08_LateFree() {
	l := zzBufNew()
	var pending *PolicyBuffers[uint64, uint64]
	for i := 0; i < 16; i++ {
		if pb := l.add(); pb != nil {
			pending = pb
		}
	}
	vfAssert("sixteenth-add-returns-a-batch", pending != nil && len(pending.Returned) == 16)
	j := vfChoose("addsWhileTokenOut", 18)
	vfNote("addsWhileTokenOut", int64(j))
	for i := 0; i < j; i++ {
		if pb := l.add(); pb != nil {
			vfFail("second-batch-while-token-out")
		}
	}
	l.b.Free() // the late hand-back
	vfReach("late-free-done")
	before := l.batches
	for i := 0; i < 33; i++ {
		if pb := l.add(); pb != nil {
			l.b.Free()
		}
	}
	vfAssert("stripe-still-delivers-after-late-free", l.batches > before)
}

// ZZ_C08_Atomic: two readers interleaved at the granularity of individual atomic operations on a stripe that
// already holds N0 items; whoever obtains the batch frees it at once; afterwards the stripe must still deliver.
func ZZ_C08_Atomic() {
	l := zzBufNew()
	n0 := vfConfig("N0", 14)
	for i := 0; i < n0; i++ {
		l.add()
	}
	vfSetAtomicVisible(true)
	vfSetPreemptions(vfConfig("PRE", 2))
	K := vfConfig("ADDS", 1)
	done := make(chan int, 2)
	for t := 0; t < 2; t++ {
		go func() {
			for i := 0; i < K; i++ {
				if pb := l.add(); pb != nil {
					l.b.Free()
				}
			}
			done <- 1
		}()
	}
	<-done
	<-done
	vfSetAtomicVisible(false)
	vfSetPreemptions(0)
	vfReach("burst-over")
	before := l.batches
	for i := 0; i < 33; i++ {
		if pb := l.add(); pb != nil {
			l.b.Free()
		}
	}
	vfAssert("stripe-still-delivers-after-burst", l.batches > before)
}

// ZZ_C08_Store: after a late hand-back at the Store level (drain delayed by the policy lock) hits are recorded again.
func ZZ_C08_Store() {
	s := zzThreadedStore(100, nil)
	s.Set(1, 100, 1, 0)
	s.Wait()
	vfNote("storeLevel", 1)
	// 15 hits fill the stripe up to one below capacity
	for i := 0; i < 15; i++ {
		s.Get(1)
	}
	// the 16th hit drains; its drain is stalled behind the policy lock (held by main, as SaveCache would)
	s.policyMu.Lock()
	done := make(chan int, 1)
	go func() {
		s.Get(1) // obtains the batch, blocks in drainRead on policyMu
		done <- 1
	}()
	vfQuiesce()
	for i := 0; i < 17; i++ {
		s.Get(1) // hits while the token is out
	}
	s.policyMu.Unlock()
	<-done
	vfReach("stall-over")
	h0 := s.policy.hitsInSample
	for i := 0; i < 40; i++ {
		s.Get(1)
	}
	vfAssert("later-hits-reach-the-policy", s.policy.hitsInSample > h0)
}

// ZZ_C08_AtomicLate: the late hand-back (Free) races, at atomic granularity, with readers that fill the ring
// while the token is out.
func ZZ_C08_AtomicLate() {
	l := zzBufNew()
	for i := 0; i < 16; i++ {
		l.add() // the 16th returns the batch; the token stays out
	}
	j := vfConfig("J", 15)
	for i := 0; i < j; i++ {
		l.add()
	}
	vfSetAtomicVisible(true)
	vfSetPreemptions(vfConfig("PRE", 2))
	K := vfConfig("ADDS", 2)
	done := make(chan int, 2)
	go func() {
		l.b.Free() // late hand-back
		done <- 1
	}()
	go func() {
		for i := 0; i < K; i++ {
			if pb := l.add(); pb != nil {
				l.b.Free()
			}
		}
		done <- 1
	}()
	<-done
	<-done
	vfSetAtomicVisible(false)
	vfSetPreemptions(0)
	vfReach("burst-over")
	before := l.batches
	for i := 0; i < 33; i++ {
		if pb := l.add(); pb != nil {
			l.b.Free()
		}
	}
	vfAssert("stripe-still-delivers-after-late-free-race", l.batches > before)
}

// ZZ_C08_StaleView: one reader is preempted in the middle of an Add (between any two of its atomic
// operations) while another reader performs a whole lap and more; afterwards the stripe must still deliver,
// and the ring counters must stay ordered (head never overtakes tail).
func ZZ_C08_StaleView() {
	l := zzBufNew()
	n0 := vfConfig("N0", 0)
	for i := 0; i < n0; i++ {
		l.add()
	}
	vfSetAtomicVisible(true)
	vfSetPreemptions(vfConfig("PRE", 1))
	Y := vfConfig("YADDS", 20)
	done := make(chan int, 2)
	go func() {
		if pb := l.add(); pb != nil {
			l.b.Free()
		}
		done <- 1
	}()
	go func() {
		for i := 0; i < Y; i++ {
			if pb := l.add(); pb != nil {
				l.b.Free()
			}
		}
		done <- 1
	}()
	<-done
	<-done
	vfSetAtomicVisible(false)
	vfSetPreemptions(0)
	vfReach("burst-over")
	vfAssert("head-never-overtakes-tail", l.b.head.Load() <= l.b.tail.Load())
	before := l.batches
	delivered := 0
	for i := 0; i < 49; i++ {
		if pb := l.add(); pb != nil {
			delivered += len(pb.Returned)
			l.b.Free()
		}
	}
	vfAssert("stripe-still-delivers-after-stale-view", l.batches > before && delivered >= 16)
}
