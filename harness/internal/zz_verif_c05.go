//go:build verif

package internal

import "time"

// C05 — exactly one removal notification per departed entry, with the true reason.

func zzCount(notes []zzNote, key uint64) (n int, last zzNote) {
	for _, x := range notes {
		if x.key == key {
			n++
			last = x
		}
	}
	return
}

// ZZ_C05_DeleteVsEvict: a Delete and a capacity eviction of the same entry overlap in the pipeline.
func ZZ_C05_DeleteVsEvict() {
	var notes []zzNote
	s := zzThreadedStore(1, &notes)
	s.Set(1, 100, 1, 0)
	s.Wait()
	vfSetPreemptions(vfConfig("PRE", 1))
	vfNote("deleteVsEvict", 1)
	done := make(chan int, 2)
	go func() { s.Delete(1); done <- 1 }()
	go func() { s.Set(2, 200, 1, 0); done <- 1 }()
	<-done
	<-done
	vfSetPreemptions(0)
	s.Wait()
	vfReach("drained")
	n1, l1 := zzCount(notes, 1)
	vfAssert("deleted-entry-notified-exactly-once", n1 == 1)
	if n1 >= 1 {
		vfAssert("deleted-entry-value", l1.val == 100)
		// REMOVED if the Delete won the map removal, EVICTED if the eviction did
		vfAssert("deleted-entry-reason-removed-or-evicted", l1.reason == REMOVED || l1.reason == EVICTED)
	}
	_, res2 := s.shards[zzIndex(s, 2)].hashmap[2]
	n2, l2 := zzCount(notes, 2)
	vfAssert("second-entry-resident-xor-notified-once", (res2 && n2 == 0) || (!res2 && n2 == 1))
	if n2 == 1 {
		vfAssert("second-entry-reason-evicted", l2.reason == EVICTED && l2.val == 200)
	}
	vfAssert("stored-equals-resident-plus-notified", 2 == s.Len()+len(notes))
}

// ZZ_C05_DeleteVsExpire: a Delete and the expiry of the same entry overlap.
func ZZ_C05_DeleteVsExpire() {
	var notes []zzNote
	s := zzThreadedStore(10, &notes)
	origin := vfClockNow()
	s.Set(1, 100, 1, time.Duration(1<<29))
	s.Wait()
	vfClockSet(origin + 1<<31)
	vfSetPreemptions(vfConfig("PRE", 1))
	vfNote("deleteVsExpire", 1)
	vfFireTickers()
	done := make(chan int, 1)
	go func() { s.Delete(1); done <- 1 }()
	<-done
	vfSetPreemptions(0)
	vfQuiesce()
	s.Wait()
	vfReach("drained")
	n1, l1 := zzCount(notes, 1)
	vfAssert("entry-notified-exactly-once", n1 == 1)
	if n1 >= 1 {
		vfAssert("notified-value", l1.val == 100)
		vfAssert("reason-removed-or-expired", l1.reason == REMOVED || l1.reason == EXPIRED)
	}
	vfAssert("not-resident", s.Len() == 0)
}

// ZZ_C05_EvictVsExpire: capacity eviction and expiry of the same entry overlap; an update of the value is
// reported with the value held at departure.
func ZZ_C05_EvictVsExpire() {
	var notes []zzNote
	s := zzThreadedStore(1, &notes)
	origin := vfClockNow()
	s.Set(1, 100, 1, time.Duration(1<<29))
	s.Set(1, 101, 1, 0) // value update, deadline kept
	s.Wait()
	vfClockSet(origin + 1<<31)
	vfSetPreemptions(vfConfig("PRE", 1))
	vfFireTickers()
	done := make(chan int, 1)
	go func() { s.Set(2, 200, 1, 0); done <- 1 }()
	<-done
	vfSetPreemptions(0)
	vfQuiesce()
	s.Wait()
	vfReach("drained")
	n1, l1 := zzCount(notes, 1)
	_, res1 := s.shards[zzIndex(s, 1)].hashmap[1]
	vfAssert("first-entry-gone", !res1)
	vfAssert("first-entry-notified-exactly-once", n1 == 1)
	if n1 >= 1 {
		vfAssert("notified-with-value-at-departure", l1.val == 101)
		vfAssert("reason-evicted-or-expired", l1.reason == EVICTED || l1.reason == EXPIRED)
	}
	_, res2 := s.shards[zzIndex(s, 2)].hashmap[2]
	n2, _ := zzCount(notes, 2)
	vfAssert("second-entry-resident-xor-notified-once", (res2 && n2 == 0) || (!res2 && n2 == 1))
}

// ZZ_C05_Rejected: a Set rejected for its cost, or by the doorkeeper, is never notified.
func ZZ_C05_Rejected() {
	var notes []zzNote
	vfSetHashMode(1)
	StripedBufferSize = 1
	s := NewStore[uint64, uint64](&StoreOptions[uint64, uint64]{MaxSize: 2, Doorkeeper: vfConfig("DOOR", 1) == 1,
		Listener: func(k, v uint64, r RemoveReason) { notes = append(notes, zzNote{k, v, r}) }})
	ok1 := s.Set(1, 100, 3, 0)
	ok2 := s.Set(2, 200, 1, 0)
	s.Wait()
	vfReach("drained")
	vfAssert("oversize-rejected", !ok1)
	if !ok2 {
		vfReach("doorkeeper-rejected")
	}
	vfAssert("no-notification-for-rejected-set", len(notes) == 0)
}

// ZZ_C05_ExpiredOnArrival: the insert event of a short-TTL entry is processed at an arbitrary later instant W,
// with the cached clock last refreshed at an arbitrary instant C <= W. Either the entry is still alive and is
// tracked (policy, wheel), or it is removed with exactly one EXPIRED notification - also when a Delete follows.
func ZZ_C05_ExpiredOnArrival() {
	var notes []zzNote
	s := zzThreadedStore(10, &notes)
	origin := vfClockNow()
	ttl := vfI64("ttl")
	W := vfI64("drainAt")
	C := vfI64("cachedNow")
	vfAssume(ttl >= 1)
	vfAssume(ttl <= 1<<29)
	vfAssume(W >= 0)
	vfAssume(W <= 1<<30)
	vfAssume(C >= 0)
	vfAssume(C <= W)
	s.Set(1, 100, 1, time.Duration(ttl))
	vfClockSet(origin + C)
	s.timerwheel.clock.RefreshNowCache()
	vfClockSet(origin + W)
	s.Wait() // the NEW event is processed now
	vfReach("drained")
	_, resident := s.shards[zzIndex(s, 1)].hashmap[1]
	n1, l1 := zzCount(notes, 1)
	if W >= ttl {
		vfReach("expired-on-arrival")
		vfAssert("expired-on-arrival-not-resident", !resident)
		vfAssert("expired-on-arrival-notified-once", n1 == 1 && l1.reason == EXPIRED && l1.val == 100)
	} else {
		vfAssert("alive-on-arrival-resident", resident && n1 == 0)
	}
	zzAccounted(s, "arrival")
	zzOnWheel(s, "arrival")
	s.Delete(1)
	s.Wait()
	n2, _ := zzCount(notes, 1)
	vfAssert("exactly-one-notification-after-delete", n2 == 1)
	vfAssert("gone-after-delete", s.Len() == 0)
}

// ZZ_C05_DeleteVsReset: Delete of a key races a Set of the same key (a new incarnation) on a one-slot cache, so
// that the old incarnation may be evicted or removed while the new one already owns the map slot.
func ZZ_C05_DeleteVsReset() {
	var notes []zzNote
	s := zzThreadedStore(1, &notes)
	s.Set(1, 100, 1, 0)
	s.Wait()
	vfSetPreemptions(vfConfig("PRE", 1))
	done := make(chan int, 2)
	go func() { s.Delete(1); done <- 1 }()
	go func() { s.Set(1, 200, 1, 0); done <- 1 }()
	<-done
	<-done
	vfSetPreemptions(0)
	s.Wait()
	vfReach("drained")
	e, resident := s.shards[zzIndex(s, 1)].hashmap[1]
	nOld, nNew := 0, 0
	for _, n := range notes {
		if n.key == 1 && n.val == 100 {
			nOld++
		}
		if n.key == 1 && n.val == 200 {
			nNew++
		}
	}
	if resident {
		vfAssert("resident-value-is-the-new-one-or-the-surviving-update", e.value == 200)
		vfAssert("no-notification-for-the-resident-incarnation", nNew == 0)
	}
	vfAssert("each-incarnation-notified-at-most-once", nOld <= 1 && nNew <= 1)
	zzAccounted(s, "delete-vs-reset")
	zzViews(s, "delete-vs-reset")
}

// ZZ_C05_UpdateVsEvict: an overwrite of a key races the eviction of its entry. Whichever way it goes, the value
// the listener is given is the value the entry held when it left the cache: the overwriting value is either
// still resident or was notified itself; it never vanishes behind a notification that carries the older value.
func ZZ_C05_UpdateVsEvict() {
	var notes []zzNote
	s := zzThreadedStore(1, &notes)
	s.Set(1, 101, 1, 0)
	s.Wait()
	vfSetPreemptions(vfConfig("PRE", 1))
	done := make(chan int, 2)
	var ok bool
	go func() { ok = s.Set(1, 102, 1, 0); done <- 1 }()
	go func() { s.Set(2, 201, 1, 0); done <- 1 }()
	<-done
	<-done
	vfSetPreemptions(0)
	s.Wait()
	vfReach("drained")
	vfAssert("overwrite-accepted", ok)
	e1, res1 := s.shards[zzIndex(s, 1)].hashmap[1]
	new1, old1 := 0, 0
	for _, n := range notes {
		if n.key == 1 && n.val == 102 {
			new1++
		}
		if n.key == 1 && n.val == 101 {
			old1++
		}
	}
	if res1 {
		vfAssert("resident-holds-the-overwriting-value", e1.value == 102 && new1 == 0)
	} else {
		vfAssert("overwriting-value-notified-when-it-left", new1 == 1)
	}
	// the overwritten value is reported at most once (only when the entry left before the overwrite arrived)
	vfAssert("overwritten-value-at-most-once", old1 <= 1)
	_, res2 := s.shards[zzIndex(s, 2)].hashmap[2]
	n2, _ := zzCount(notes, 2)
	vfAssert("second-entry-resident-xor-notified-once", (res2 && n2 == 0) || (!res2 && n2 == 1))
	zzAccounted(s, "update-vs-evict")
}
