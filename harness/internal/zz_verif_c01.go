//go:build verif

package internal

import "context"

// C01 — linearizable map. Two clients issue real API calls with a distinct value tag per write; the harness
// records call/return order and results and checks that a legal linearization exists. The sequential
// specification is a map that may drop any key at any time (eviction, expiry): a hit must return the value
// of the latest preceding write of that key with no Delete in between; a miss is always legal.

type zzOp struct {
	kind      int // 0 set, 1 get, 2 delete, 3 range-visit (get-like), 4 loading get
	key, val  uint64
	hit       bool
	ok        bool // Set accepted
	call, ret int
}

type zzHist struct {
	ops   []*zzOp
	clock int
}

func (h *zzHist) begin(kind int, key, val uint64) *zzOp {
	h.clock++
	o := &zzOp{kind: kind, key: key, val: val, call: h.clock}
	h.ops = append(h.ops, o)
	return o
}

func (h *zzHist) end(o *zzOp) {
	h.clock++
	o.ret = h.clock
}

// linearizable: search for a total order respecting real time in which every hit is explained.
func (h *zzHist) linearizable() bool {
	n := len(h.ops)
	used := make([]bool, n)
	// per key: current value (0 = absent)
	var rec func(done int, cur map[uint64]uint64) bool
	rec = func(done int, cur map[uint64]uint64) bool {
		if done == n {
			return true
		}
		for i := 0; i < n; i++ {
			if used[i] {
				continue
			}
			o := h.ops[i]
			// real-time order: o may go next only if no unused op returned before o was called
			okRT := true
			for j := 0; j < n; j++ {
				if !used[j] && j != i && h.ops[j].ret != 0 && h.ops[j].ret < o.call {
					okRT = false
				}
			}
			if !okRT {
				continue
			}
			old, had := cur[o.key]
			legal := true
			switch o.kind {
			case 0:
				if o.ok {
					cur[o.key] = o.val
				}
			case 2:
				delete(cur, o.key)
			case 1, 3:
				if o.hit && (!had || old != o.val) {
					legal = false
				}
			case 4:
				// loading get: returns the cached value, or loads (and stores) val
				if o.hit {
					if !had || old != o.val {
						legal = false
					}
				} else {
					cur[o.key] = o.val
				}
			}
			if legal {
				used[i] = true
				if rec(done+1, cur) {
					return true
				}
				used[i] = false
			}
			// undo
			if had {
				cur[o.key] = old
			} else {
				delete(cur, o.key)
			}
		}
		return false
	}
	return rec(0, map[uint64]uint64{})
}

func zzC01Client(s *Store[uint64, uint64], ls *LoadingStore[uint64, uint64], h *zzHist, tag *uint64, nops int) {
	menu := 5
	if ls != nil {
		menu = 6
	}
	for i := 0; i < nops; i++ {
		op := vfChoose("op", menu)
		*tag++
		switch op {
		case 0, 1:
			o := h.begin(0, uint64(op+1), *tag)
			o.ok = s.Set(o.key, o.val, 1, 0)
			h.end(o)
		case 2:
			o := h.begin(1, 1, 0)
			v, hit := s.Get(1)
			o.hit, o.val = hit, v
			h.end(o)
		case 3:
			o := h.begin(2, 1, 0)
			s.Delete(1)
			h.end(o)
		case 4:
			// Range: every visit is a read of that key
			s.Range(func(k, v uint64) bool {
				o := h.begin(3, k, v)
				o.hit = true
				h.end(o)
				return true
			})
		case 5:
			o := h.begin(4, 1, 0)
			before := zzLoads
			v, _ := ls.Get(context.Background(), 1)
			o.val = v
			o.hit = zzLoads == before
			h.end(o)
		}
	}
}

var zzLoads int

func ZZ_C01_Linearizable() {
	capv := int64(vfConfig("CAP", 1))
	s := zzThreadedStore(capv, nil)
	var ls *LoadingStore[uint64, uint64]
	if vfConfig("LOADING", 0) == 1 {
		ls = NewLoadingStore(s)
		zzLoads = 0
		ls.Loader(func(ctx context.Context, key uint64) (Loaded[uint64], error) {
			zzLoads++
			return Loaded[uint64]{Value: 900 + uint64(zzLoads), Cost: 1}, nil
		})
	}
	OPS := vfConfig("OPS", 2)
	h := &zzHist{}
	if vfConfig("PRELUDE", 0) == 1 {
		// fill the entry pool first: two stores at capacity 1, one of them is evicted and recycled
		for k := uint64(1); k <= 2; k++ {
			o := h.begin(0, k, 50+k)
			o.ok = s.Set(k, 50+k, 1, 0)
			h.end(o)
		}
		s.Wait()
	}
	vfSetPreemptions(vfConfig("PRE", 1))
	race := vfConfig("POOL", 0) == 0 // the happens-before monitor also runs here (pool off: the default configuration)
	if race {
		vfSetRaceDetector(true)
	}
	done := make(chan int, 2)
	var tagA, tagB uint64 = 100, 200
	go func() { zzC01Client(s, ls, h, &tagA, OPS); done <- 1 }()
	go func() { zzC01Client(s, ls, h, &tagB, OPS); done <- 1 }()
	<-done
	<-done
	vfSetPreemptions(0)
	vfReach("history-complete")
	if race {
		vfAssertNoRace("no-data-race-in-history")
	}
	vfAssert("history-is-linearizable", h.linearizable())
	// after everything returned: a final read agrees with some linearization too
	o := h.begin(1, 1, 0)
	v, hit := s.Get(1)
	o.hit, o.val = hit, v
	h.end(o)
	vfAssert("final-read-linearizable", h.linearizable())
}

// ZZ_C01_RBMutex: the real reader-biased lock at atomic granularity: a writer and two readers never overlap.
func ZZ_C01_RBMutex() {
	vfSetIdealRBMutex(false)
	vfSetAtomicVisible(true)
	vfSetPreemptions(vfConfig("PRE", 2))
	mu := NewRBMutex()
	writers, readers := 0, 0
	done := make(chan int, 3)
	go func() {
		mu.Lock()
		writers++
		vfAssert("writer-excludes-readers", readers == 0 && writers == 1)
		vfYield()
		vfAssert("writer-still-alone", readers == 0 && writers == 1)
		writers--
		mu.Unlock()
		done <- 1
	}()
	for i := 0; i < vfConfig("READERS", 2); i++ {
		go func() {
			tk := mu.RLock()
			readers++
			vfAssert("reader-excludes-writer", writers == 0)
			vfYield()
			vfAssert("reader-still-excludes-writer", writers == 0)
			readers--
			mu.RUnlock(tk)
			done <- 1
		}()
	}
	for i := 0; i < 1+vfConfig("READERS", 2); i++ {
		<-done
	}
	vfReach("all-done")
}
