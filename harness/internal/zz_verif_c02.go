//go:build verif

package internal

import "time"

// C02 / C05 / C16(c) — accounting and notifications after drain. Bounded concurrent programs on the real Store.

// zzOnWheel: every resident entry with a deadline is on a timer-wheel list (so that it can still expire).
func zzOnWheel(s *Store[uint64, uint64], label string) {
	s.RangeEntry(func(e *Entry[uint64, uint64]) {
		if e.expire.Load() != 0 {
			vfAssert(label+":entry-with-deadline-on-wheel", e.meta.wheelPrev != nil && e.meta.wheelNext != nil)
		}
	})
}

// zzViews: Len / EstimatedSize / Range agree with the shard maps (C16 post-drain clause).
func zzViews(s *Store[uint64, uint64], label string) {
	n := 0
	var cost int64
	s.RangeEntry(func(e *Entry[uint64, uint64]) { n++; cost += e.weight.Load() })
	vfAssert(label+":len-is-entry-count", s.Len() == n)
	vfAssert(label+":estimated-size-is-total-cost", int64(s.EstimatedSize()) == cost)
}

func zzClientOp(s *Store[uint64, uint64], capv int64, tag *uint64) {
	menu := 4
	if vfConfig("TTL", 0) == 1 {
		menu = 6 // also: Set k1 with a TTL, and "time passes and the maintenance tick fires"
	}
	op := vfChoose("op", menu)
	*tag++
	v := *tag
	switch op {
	case 4:
		c := vfI64("cost")
		vfAssume(c >= 1)
		vfAssume(c <= capv)
		s.Set(1, v, c, time.Duration(1<<29))
	case 5:
		vfClockAdvance(1 << 31)
		vfFireTickers()
	case 0, 1:
		c := vfI64("cost")
		vfAssume(c >= 1)
		vfAssume(c <= capv)
		s.Set(uint64(op+1), v, c, 0)
	case 2:
		s.Delete(1)
	case 3:
		s.Get(1)
	}
}

// ZZ_C02_Program: two clients, OPS operations each (Set k1 / Set k2 with symbolic costs, Delete k1, Get k1).
func ZZ_C02_Program() {
	capv := int64(vfConfig("CAP", 2))
	var notes []zzNote
	s := zzThreadedStore(capv, &notes)
	OPS := vfConfig("OPS", 2)
	vfSetPreemptions(vfConfig("PRE", 1))
	done := make(chan int, 2)
	var tagA, tagB uint64 = 100, 200
	go func() {
		for i := 0; i < OPS; i++ {
			zzClientOp(s, capv, &tagA)
		}
		done <- 1
	}()
	go func() {
		for i := 0; i < OPS; i++ {
			zzClientOp(s, capv, &tagB)
		}
		done <- 1
	}()
	<-done
	<-done
	vfSetPreemptions(0)
	s.Wait()
	vfQuiesce()
	s.Wait()
	vfReach("drained")
	zzAccounted(s, "drained")
	zzViews(s, "drained")
	zzOnWheel(s, "drained")
	// notifications never name a value that is still resident under that key, and at most one per departed entry value
	for i, n := range notes {
		for j := i + 1; j < len(notes); j++ {
			vfAssert("drained:no-duplicate-notification", !(notes[j].key == n.key && notes[j].val == n.val))
		}
		if e, ok := s.shards[zzIndex(s, n.key)].hashmap[n.key]; ok {
			vfAssert("drained:no-notification-for-resident-value", e.value != n.val)
		}
	}
}

// ZZ_C02_ExpiryWindow: a TTL extension lands between the wheel's expiry test and removeEntry's re-check
// (sync/atomic operations are scheduling points, so no yield hook is needed in the source).
func ZZ_C02_ExpiryWindow() {
	var notes []zzNote
	s := zzThreadedStore(10, &notes)
	origin := vfClockNow()
	s.Set(1, 100, 1, time.Duration(1<<29))
	s.Wait()
	vfClockSet(origin + 1<<31) // the deadline has passed
	vfNote("expiryWindow", 1)
	vfSetAtomicVisible(true)
	vfSetPreemptions(vfConfig("PRE", 1))
	vfFireTickers()
	done := make(chan int, 1)
	go func() {
		s.Set(1, 101, 2, time.Duration(1<<33)) // new deadline far in the future, new cost
		done <- 1
	}()
	<-done
	vfSetAtomicVisible(false)
	vfSetPreemptions(0)
	vfQuiesce()
	s.Wait()
	vfReach("settled")
	for _, n := range notes {
		if n.reason == EXPIRED {
			vfReach("old-value-expired-first")
		}
	}
	vfPrint("notes", len(notes))
	zzAccounted(s, "window")
	zzOnWheel(s, "window")
	zzViews(s, "window")
	// the Set was accepted with a deadline far in the future and there is no capacity pressure: its value
	// must not disappear, however the call interleaves with the expiry of the previous value
	_, stillThere := s.shards[zzIndex(s, 1)].hashmap[1]
	vfAssert("window:accepted-value-not-lost", stillThere)
	if e, ok := s.shards[zzIndex(s, 1)].hashmap[1]; ok {
		vfAssert("window:resident-value-is-latest", e.value == 101)
		vfAssert("window:no-notification-for-resident-entry", len(notes) == 0 || notes[len(notes)-1].val != 101)
	}
}

// debugging aid: the same window forced deterministically (no threads): the wheel's removal callback is
// invoked by hand after the TTL extension.
func ZZ_C02_WindowSeq() {
	var notes []zzNote
	s := zzThreadedStore(10, &notes)
	origin := vfClockNow()
	s.Set(1, 100, 1, time.Duration(1<<29))
	s.Wait()
	vfClockSet(origin + 1<<31)
	e := s.shards[zzIndex(s, 1)].hashmap[1]
	s.policyMu.Lock()
	s.timerwheel.deschedule(e) // what expire() does after its own deadline test ...
	s.Set(1, 101, 2, time.Duration(1<<33))
	s.removeEntry(e, EXPIRED) // ... and then calls
	s.policyMu.Unlock()
	s.Wait()
	vfReach("settled")
	zzAccounted(s, "window")
	zzOnWheel(s, "window")
}

func ZZ_C02_DebugTick() {
	var notes []zzNote
	s := zzThreadedStore(10, &notes)
	origin := vfClockNow()
	s.Set(1, 100, 1, time.Duration(1<<29))
	s.Wait()
	vfClockSet(origin + 1<<31)
	vfPrint("active", vfActiveTickers())
	vfPrint("live", vfLiveThreads())
	n := vfFireTickers()
	vfPrint("fired", n)
	vfQuiesce()
	vfPrint("notes", len(notes))
	vfPrint("nanos", s.timerwheel.nanos)
	vfReach("x")
}

// ZZ_C02_TwoWriters: two writers to the same key with different symbolic costs, with a preemption anywhere
// (in particular between a writer's map update and the queuing of its event, so that the update event of the
// second writer can overtake the insert event of the first).
func ZZ_C02_TwoWriters() {
	capv := int64(vfConfig("CAP", 4))
	var notes []zzNote
	s := zzThreadedStore(capv, &notes)
	vfSetPreemptions(vfConfig("PRE", 1))
	done := make(chan int, 2)
	for i := 0; i < 2; i++ {
		i := i
		go func() {
			c := vfI64("cost")
			vfAssume(c >= 1)
			vfAssume(c <= capv)
			s.Set(1, uint64(100+i), c, 0)
			if vfConfig("SECOND", 1) == 1 {
				c2 := vfI64("cost")
				vfAssume(c2 >= 1)
				vfAssume(c2 <= capv)
				s.Set(1, uint64(200+i), c2, 0)
			}
			done <- 1
		}()
	}
	<-done
	<-done
	vfSetPreemptions(0)
	s.Wait()
	vfReach("drained")
	zzAccounted(s, "two-writers")
	zzViews(s, "two-writers")
	// (the key itself may have been evicted: reordered cost deltas can overshoot MaxSize transiently, which the
	// property does not forbid; what it demands is exact accounting of whatever is resident)
}

// ZZ_C02_PoolStaleUpdate: entry pool on. A writer updates key 1 (cost change) and is preempted between its map
// update and the queuing of its event; meanwhile the other client stores key 2, which evicts and recycles the
// entry object of key 1, and stores key 1 again. The delayed update event belongs to the old incarnation:
// it must not be applied to the new one (the same-key reuse guard gives the new incarnation a new object).
func ZZ_C02_PoolStaleUpdate() {
	var notes []zzNote
	s := zzThreadedStore(2, &notes) // POOL comes from the configuration
	s.Set(1, 101, 1, 0)
	s.Wait()
	vfSetPreemptions(vfConfig("PRE", 1))
	done := make(chan int, 2)
	go func() {
		s.Set(1, 102, 2, 0) // update, cost +1
		done <- 1
	}()
	go func() {
		s.Set(2, 201, 2, 0) // 1+2 > 2: somebody is evicted
		s.Wait()
		s.Set(1, 103, 1, 0)
		s.Wait()
		done <- 1
	}()
	<-done
	<-done
	vfSetPreemptions(0)
	s.Wait()
	vfReach("drained")
	zzAccounted(s, "pool-stale-update")
	zzViews(s, "pool-stale-update")
}

// ZZ_C02_WindowCostUpdate: MaxSize 200 (window of 2): the main region holds nearly everything, a small entry sits
// in the window and its cost is raised by an overwrite. Eviction runs after every cost increase, wherever the
// entry is: after the drain the resident cost is within MaxSize again.
func ZZ_C02_WindowCostUpdate() {
	var notes []zzNote
	s := zzThreadedStore(200, &notes)
	big := vfI64("big")
	vfAssume(big >= 190)
	vfAssume(big <= 199)
	a := vfI64("small")
	vfAssume(a >= 1)
	vfAssume(a <= 2)
	b := vfI64("raised")
	vfAssume(b >= 1)
	vfAssume(b <= 10)
	s.Set(1, 101, big, 0)
	s.Wait()
	s.Set(2, 201, a, 0)
	s.Wait()
	zzAccounted(s, "before-update")
	s.Set(2, 202, b, 0)
	s.Wait()
	vfReach("drained")
	zzAccounted(s, "after-update")
	zzViews(s, "after-update")
}
