//go:build verif

package internal

import "math/bits"

// C17 — frequency sketch. Lemmas over the real CountMinSketch with the table as an SMT array.
//
// Representation invariant RI: len(Table) = L = 2^k, 16 <= L <= 2^24, BlockMask = L/8-1,
// SampleSize = 10*L, Additions < SampleSize.

func zzC17Sketch(concreteL int) (*CountMinSketch, int) {
	var L int
	if concreteL > 0 {
		L = concreteL
	} else {
		L = vfInt("L")
		vfAssume(L >= 16)
		vfAssume(L <= 1<<24)
		vfAssume(L&(L-1) == 0)
	}
	s := &CountMinSketch{Table: vfSymU64Slice("T", L), BlockMask: uint(L>>3 - 1), SampleSize: uint(10 * L)}
	s.Additions = vfUint("A")
	vfAssume(s.Additions < s.SampleSize)
	return s, L
}

func zzNib(s *CountMinSketch, idx uint, off uint) uint64 {
	return (s.Table[idx] >> (off << 2)) & 0xf
}

func zzMin(a, b uint64) uint64 { return vfIteU64(a < b, a, b) }

// ZZ_C17_AddStep: one Add (reset stubbed out; reset has its own lemmas) from an arbitrary RI state.
func ZZ_C17_AddStep() {
	s, L := zzC17Sketch(0)
	h := vfU64("h")
	vfStub("CountMinSketch).reset")
	A0 := s.Additions

	// where the code says h's counters are (real indexOf), and the block they must share
	block := (h & uint64(s.BlockMask)) << 3
	ch := rehash(h)
	var idx, off [4]uint
	var old [4]uint64
	for i := 0; i < 4; i++ {
		idx[i], off[i] = s.indexOf(ch, block, uint8(i))
		vfAssert("counter-index-in-range", idx[i] < uint(L))
		vfAssert("counter-in-own-block", uint64(idx[i])>>3 == block>>3)
		old[i] = zzNib(s, idx[i], off[i])
	}
	for i := 0; i < 4; i++ {
		for j := i + 1; j < 4; j++ {
			vfAssert("four-distinct-words", idx[i] != idx[j])
		}
	}
	// an arbitrary other nibble
	gi := vfUint("gi")
	gof := vfUint("go")
	vfAssume(gi < uint(L))
	vfAssume(gof < 16)
	isMine := false
	for i := 0; i < 4; i++ {
		isMine = vfOr(isMine, vfAnd(gi == idx[i], gof == off[i]))
	}
	g0 := zzNib(s, gi, gof)
	e0 := uint64(s.Estimate(h))

	r := s.Add(h)

	vfReach("after-add")
	anyInc := false
	for i := 0; i < 4; i++ {
		now := zzNib(s, idx[i], off[i])
		vfAssert("counter-saturating-increment", now == zzMin(old[i]+1, 15))
		anyInc = vfOr(anyInc, old[i] < 15)
	}
	vfAssert("other-nibbles-unchanged", vfImplies(!isMine, zzNib(s, gi, gof) == g0))
	e1 := uint64(s.Estimate(h))
	vfAssert("estimate-is-min-of-counters", e1 == zzMin(zzMin(zzNib(s, idx[0], off[0]), zzNib(s, idx[1], off[1])), zzMin(zzNib(s, idx[2], off[2]), zzNib(s, idx[3], off[3]))))
	vfAssert("estimate-never-undercounts", e1 == zzMin(e0+1, 15))
	vfAssert("estimate-at-most-15", e1 <= 15)
	// sample period: Additions counts effective additions, reset exactly when it reaches SampleSize
	want := A0
	if anyInc {
		want = A0 + 1
	}
	vfAssert("additions-counted", s.Additions == want)
	resets := vfStubCalls("CountMinSketch).reset")
	vfAssert("reset-exactly-at-sample-size", (resets == 1) == (anyInc && A0+1 == s.SampleSize))
	vfAssert("reset-at-most-once", resets <= 1)
	vfAssert("add-reports-reset", r == (resets == 1))
	vfAssert("additions-below-sample-size-unless-reset", vfOr(resets == 1, s.Additions < s.SampleSize))
}

// ZZ_C17_Addn: bulk addition (persistence restore path), n in 0..N.
func ZZ_C17_Addn() {
	s, L := zzC17Sketch(0)
	h := vfU64("h")
	n := vfInt("n")
	N := vfConfig("N", 3)
	vfAssume(n >= 0)
	vfAssume(n <= N)
	block := (h & uint64(s.BlockMask)) << 3
	ch := rehash(h)
	var idx, off [4]uint
	var old [4]uint64
	for i := 0; i < 4; i++ {
		idx[i], off[i] = s.indexOf(ch, block, uint8(i))
		old[i] = zzNib(s, idx[i], off[i])
	}
	gi := vfUint("gi")
	gof := vfUint("go")
	vfAssume(gi < uint(L))
	vfAssume(gof < 16)
	isMine := false
	for i := 0; i < 4; i++ {
		isMine = vfOr(isMine, vfAnd(gi == idx[i], gof == off[i]))
	}
	g0 := zzNib(s, gi, gof)
	e0 := uint64(s.Estimate(h))
	vfStub("CountMinSketch).reset") // reset has its own lemmas; here it only matters whether it is called
	s.Addn(h, n)
	vfReach("after-addn")
	// the sample period survives a bulk addition: either Additions stays below SampleSize or an aging reset ran
	// (with a stubbed reset Additions is whatever the call left; the real reset brings it below, ZZ_C17_Reset)
	resets := vfStubCalls("CountMinSketch).reset")
	vfAssert("addn-keeps-period-invariant", vfOr(resets >= 1, s.Additions < s.SampleSize))
	for i := 0; i < 4; i++ {
		vfAssert("addn-counter", zzNib(s, idx[i], off[i]) == zzMin(old[i]+uint64(n), 15))
	}
	vfAssert("addn-others-unchanged", vfImplies(!isMine, zzNib(s, gi, gof) == g0))
	vfAssert("addn-estimate", uint64(s.Estimate(h)) == zzMin(e0+uint64(n), 15))
}

// ZZ_C17_Reset: the real reset() on a table of concrete length (symbolic contents).
func ZZ_C17_Reset() {
	L := vfConfig("L", 16)
	s, _ := zzC17Sketch(L)
	// as called from Add: Additions == SampleSize; also any smaller value that cannot underflow
	fromAdd := vfBool("fromAdd")
	if fromAdd {
		s.Additions = s.SampleSize
	}
	gi := vfUint("gi")
	gof := vfUint("go")
	vfAssume(gi < uint(L))
	vfAssume(gof < 16)
	g0 := zzNib(s, gi, gof)
	// oracle: number of odd counters = sum over words of popcount(word & 0x1111...) ; the popcount identity
	// itself is checked nibble by nibble on one arbitrary word in ZZ_C17_PopcountWord
	var odd uint
	for i := 0; i < L; i++ {
		odd += uint(bits.OnesCount64(s.Table[i] & 0x1111111111111111))
	}
	A0 := s.Additions
	vfAssume(A0 >= odd>>2) // holds from Add (A0 = 10L >= 4L >= odd/4); stated for the generic call
	s.reset()
	vfReach("after-reset")
	vfAssert("reset-halves-every-counter", zzNib(s, gi, gof) == g0>>1)
	vfAssert("reset-additions", s.Additions == (A0-odd>>2)>>1)
	vfAssert("reset-reestablishes-period-invariant", vfImplies(A0 <= s.SampleSize, s.Additions < s.SampleSize))
	if fromAdd {
		vfAssert("reset-from-add-no-underflow", uint(10*L) >= odd>>2)
	}
}

// ZZ_C17_AddWithReset: full Add including the real reset on a concrete-length table.
func ZZ_C17_AddWithReset() {
	L := vfConfig("L", 16)
	s, _ := zzC17Sketch(L)
	h := vfU64("h")
	A0 := s.Additions
	e0 := uint64(s.Estimate(h))
	r := s.Add(h)
	vfReach("after-add")
	vfAssert("ri-additions-below-sample-size", s.Additions < s.SampleSize)
	if r {
		vfReach("reset-happened")
		vfAssert("reset-only-at-period-end", A0+1 == s.SampleSize)
		vfAssert("after-reset-estimate-halved", uint64(s.Estimate(h)) == zzMin(e0+1, 15)>>1)
	} else {
		vfAssert("no-reset-estimate", uint64(s.Estimate(h)) == zzMin(e0+1, 15))
	}
}

// ZZ_C17_Ensure: growing never shrinks the table and re-establishes RI, for every size up to 2^24.
func ZZ_C17_Ensure() {
	s, L := zzC17Sketch(0)
	size := vfUint("size")
	vfAssume(size <= 1<<24)
	gi0 := vfUint("gi0")
	vfAssume(gi0 < uint(L))
	w0 := s.Table[gi0]
	a0 := s.Additions
	s.EnsureCapacity(size)
	vfReach("after-ensure")
	L1 := len(s.Table)
	if L1 == L {
		// no growth: the counts recorded so far are untouched
		vfAssert("no-growth-keeps-counters", s.Table[gi0] == w0 && s.Additions == a0)
	}
	vfAssert("grows-only-when-needed", vfImplies(uint(L) >= size, L1 == L))
	vfAssert("never-shrinks", L1 >= L)
	vfAssert("large-enough", L1 >= int(size))
	vfAssert("power-of-two", L1&(L1-1) == 0)
	vfAssert("at-least-16", L1 >= 16)
	vfAssert("at-most-2^24", L1 <= 1<<24)
	vfAssert("blockmask", s.BlockMask == uint(L1>>3-1))
	vfAssert("samplesize", s.SampleSize == uint(10*L1))
	vfAssert("ri-additions", s.Additions < s.SampleSize)
	if L1 != L {
		vfReach("grown")
		gi := vfUint("gi")
		vfAssume(gi < uint(L1))
		vfAssert("fresh-table-zero", s.Table[gi] == 0)
		vfAssert("fresh-additions-zero", s.Additions == 0)
	}
}

// ZZ_C17_Base: the constructor establishes RI.
func ZZ_C17_Base() {
	s := NewCountMinSketch()
	vfReach("constructed")
	L := len(s.Table)
	vfAssert("base-len", L == 64)
	vfAssert("base-blockmask", s.BlockMask == uint(L>>3-1))
	vfAssert("base-samplesize", s.SampleSize == uint(10*L))
	vfAssert("base-additions", s.Additions == 0)
	h := vfU64("h")
	vfAssert("base-estimate-zero", s.Estimate(h) == 0)
}

// ZZ_C17_PopcountWord: the count of odd counters in one word, nibble by nibble, equals the expression reset() uses.
func ZZ_C17_PopcountWord() {
	v := vfU64("v")
	var odd uint
	for k := uint(0); k < 16; k++ {
		odd += uint((v >> (k << 2)) & 1)
	}
	vfReach("word")
	vfAssert("popcount-counts-odd-counters", uint(bits.OnesCount64(v&oneMask)) == odd)
	vfAssert("halving-mask", (v>>1)&resetMask == zzHalveNibbles(v))
}

func zzHalveNibbles(v uint64) uint64 {
	var r uint64
	for k := uint(0); k < 16; k++ {
		n := (v >> (k << 2)) & 0xf
		r |= (n >> 1) << (k << 2)
	}
	return r
}
