//go:build verif

package internal

import (
	"context"

	"github.com/Yiling-J/theine-go/internal/hasher"
)

// C18 — equal keys address the same entry; different keys never alias.
// The real (pre-1.24) hasher is executed through its unsafe casts; xxh3 is an uninterpreted function of the
// key's memory image, so "equal keys hash equally" is decided by congruence and collisions are allowed.

type zzPair struct{ a, b uint32 }
type zzArr [2]uint32

func zzC18Same[K comparable](k1, k2 K, label string) {
	h := hasher.NewHasher[K](nil)
	x1 := h.Hash(k1)
	x2 := h.Hash(k2)
	x3 := h.Hash(k1)
	vfAssert(label+":equal-keys-hash-equally", vfImplies(k1 == k2, x1 == x2))
	vfAssert(label+":hash-is-stable", x1 == x3)
}

func ZZ_C18_Hasher() {
	vfSetHashMode(0)
	zzC18Same(vfU64("a"), vfU64("b"), "uint64")
	zzC18Same(vfI32("c"), vfI32("d"), "int32")
	zzC18Same(vfBool("e"), vfBool("f"), "bool")
	zzC18Same(zzPair{vfU32("p1"), vfU32("p2")}, zzPair{vfU32("q1"), vfU32("q2")}, "struct")
	zzC18Same(zzArr{vfU32("r1"), vfU32("r2")}, zzArr{vfU32("s1"), vfU32("s2")}, "array")
	x, y := new(int), new(int)
	var p1, p2 *int = x, y
	if vfBool("samePtr") {
		p2 = x
	}
	zzC18Same(p1, p2, "pointer")
	// a pointer key is its address: what it points to may change during the life of the cache
	hp := hasher.NewHasher[*int](nil)
	*x = int(vfI32("pointee1"))
	hx1 := hp.Hash(p1)
	*x = int(vfI32("pointee2"))
	hx2 := hp.Hash(p1)
	vfAssert("pointer:hash-independent-of-pointee", hx1 == hx2)
	var np *int
	_ = hp.Hash(np) // a nil pointer is a valid key
	type zzBox struct{ p *int }
	hb := hasher.NewHasher[zzBox](nil)
	*x = 1
	hb1 := hb.Hash(zzBox{x})
	*x = 2
	hb2 := hb.Hash(zzBox{x})
	vfAssert("pointer-struct:hash-independent-of-pointee", hb1 == hb2)
	zzC18Same("key-one", "key-one", "string")
	vfReach("hashed")
}

// ZZ_C18_StringKeyFunc: with a StringKeyFunc the hash is a function of the derived string only.
func ZZ_C18_StringKeyFunc() {
	vfSetHashMode(0)
	calls := 0
	h := hasher.NewHasher[zzPair](func(k zzPair) string {
		calls++
		if k.a%2 == 0 {
			return "even"
		}
		return "odd"
	})
	k1 := zzPair{vfU32("a1"), vfU32("b1")}
	k2 := zzPair{vfU32("a2"), vfU32("b2")}
	x1, x2 := h.Hash(k1), h.Hash(k2)
	vfReach("hashed")
	vfAssert("keyfunc:equal-keys-hash-equally", vfImplies(k1 == k2, x1 == x2))
	_ = calls
	// a key type whose string sits in a nested struct: equal keys built separately (their strings need not share
	// a backing array) hash equally because the StringKey function decides, not the memory image
	hN := hasher.NewHasher[zzNested](func(k zzNested) string { return k.in.s })
	kA := zzNested{zzInner{"key-a"}, 7}
	kB := zzNested{zzInner{"key-a"}, 7}
	vfAssert("keyfunc-nested:equal-keys-hash-equally", kA == kB && hN.Hash(kA) == hN.Hash(kB))
	hS := hasher.NewHasher[zzWithString](func(k zzWithString) string { return k.s })
	vfAssert("keyfunc-string-field:equal-keys-hash-equally", hS.Hash(zzWithString{"x", 1}) == hS.Hash(zzWithString{"x", 1}))
}

type zzInner struct{ s string }
type zzNested struct {
	in zzInner
	n  uint64
}
type zzWithString struct {
	s string
	n uint64
}

// ZZ_C18_Collision: two different keys whose hashes collide completely never alias in the Store.
func ZZ_C18_Collision() {
	vfSetHashMode(0)
	StripedBufferSize = 1
	s := NewStore[uint64, uint64](&StoreOptions[uint64, uint64]{MaxSize: 10, Doorkeeper: vfConfig("DOOR", 0) == 1})
	k1 := vfU64("k1")
	k2 := vfU64("k2")
	vfAssume(k1 != k2)
	h1, i1 := s.index(k1)
	h2, i2 := s.index(k2)
	vfAssume(h1 == h2) // full 64-bit collision (the uninterpreted hash permits it)
	vfAssert("index-is-function-of-hash", i1 == i2)
	ok1 := s.Set(k1, 111, 1, 0) // with the doorkeeper the first sighting of a hash is refused
	ok2 := s.Set(k2, 222, 1, 0)
	v1, hit1 := s.Get(k1)
	v2, hit2 := s.Get(k2)
	vfReach("collided")
	vfAssert("colliding-keys-keep-their-own-values", vfImplies(hit1, v1 == 111) && vfImplies(hit2, v2 == 222))
	vfAssert("both-stored", (hit1 || !ok1) && (hit2 || !ok2))
	vfAssert("refused-means-absent", (ok1 || !hit1) && (ok2 || !hit2))
	s.Delete(k1)
	_, hit1b := s.Get(k1)
	v2b, hit2b := s.Get(k2)
	vfAssert("delete-affects-only-its-key", !hit1b && (hit2b == hit2) && vfImplies(hit2b, v2b == 222))
	s.Wait()
	zzAccounted(s, "collision")
}

// ZZ_C18_CollisionLoading: two different keys with a full hash collision loaded concurrently through the
// loading cache (and its per-shard duplicate-suppression groups) each receive their own value.
func ZZ_C18_CollisionLoading() {
	vfSetHashMode(0)
	StripedBufferSize = 1
	s := NewStore[uint64, uint64](&StoreOptions[uint64, uint64]{MaxSize: 10})
	vfQuiesce()
	ls := NewLoadingStore(s)
	ls.Loader(func(ctx context.Context, key uint64) (Loaded[uint64], error) {
		vfYield()
		return Loaded[uint64]{Value: key + 1000, Cost: 1}, nil
	})
	vfStub("CountMinSketch).Add") // cut: sketch updates under a symbolic hash only fork (C17 covers the sketch)
	// concrete keys, uninterpreted hash: the collision is an assumption about the hash function
	k1, k2 := uint64(11), uint64(22)
	h1, _ := s.index(k1)
	h2, _ := s.index(k2)
	vfAssume(h1 == h2)
	vfSetPreemptions(vfConfig("PRE", 1))
	var v1, v2 uint64
	var e1, e2 error
	done := make(chan int, 2)
	go func() { v1, e1 = ls.Get(context.Background(), k1); done <- 1 }()
	go func() { v2, e2 = ls.Get(context.Background(), k2); done <- 1 }()
	<-done
	<-done
	vfSetPreemptions(0)
	vfReach("both-loaded")
	vfAssert("colliding-keys-load-their-own-values", e1 == nil && e2 == nil && v1 == k1+1000 && v2 == k2+1000)
	w1, _ := ls.Get(context.Background(), k1)
	w2, _ := ls.Get(context.Background(), k2)
	vfAssert("colliding-keys-cached-under-their-own-key", w1 == k1+1000 && w2 == k2+1000)
}
