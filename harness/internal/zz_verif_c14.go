//go:build verif

package internal

import (
	"context"
	"errors"
	"time"
)

// C14 / C15 — hybrid cache. The secondary tier is a harness implementation of the SecondaryCache interface
// (a map with per-call failure chosen nondeterministically and a yield in every method: a slow store).

type zzSecEnt struct {
	val          uint64
	cost, expire int64
}

type zzSec struct {
	m        map[uint64]zzSecEnt
	sets     int
	failures int
	handled  int
	mayFail  bool
	// failDelete: every Delete of the secondary store fails or succeeds by choice
	failDelete bool
}

var zzErrSec = errors.New("secondary store failed")

func (c *zzSec) Get(key uint64) (uint64, int64, int64, bool, error) {
	vfPrint("sec.Get by thread", vfThreadID())
	vfYield()
	e, ok := c.m[key]
	return e.val, e.cost, e.expire, ok, nil
}

func (c *zzSec) Set(key uint64, value uint64, cost int64, expire int64) error {
	vfPrint("sec.Set by thread", vfThreadID())
	vfPrint("sec.Set key", key)
	vfYield()
	c.sets++
	if c.mayFail && vfChoose("secSetFails", 2) == 1 {
		c.failures++
		return zzErrSec
	}
	c.m[key] = zzSecEnt{value, cost, expire}
	return nil
}

func (c *zzSec) Delete(key uint64) error {
	vfPrint("sec.Delete by thread", vfThreadID())
	vfYield()
	if c.failDelete && vfChoose("secDeleteFails", 2) == 1 {
		return zzErrSec
	}
	delete(c.m, key)
	return nil
}

func (c *zzSec) HandleAsyncError(err error) {
	if err != nil {
		c.handled++
	}
}

type zzHyb struct {
	s      *Store[uint64, uint64]
	sec    *zzSec
	origin int64
	now    int64
	// model of key 1
	live     bool
	val      uint64
	deadline int64
	next     uint64
	notes    []zzNote
	lossy    bool // demotions may be dropped by design (queue full / probability < 1): only the safety clauses apply
}

func zzHybNew(capv int64, mayFail bool) *zzHyb {
	vfSetHashMode(1)
	StripedBufferSize = 1
	h := &zzHyb{sec: &zzSec{m: map[uint64]zzSecEnt{}, mayFail: mayFail}, next: 100}
	h.origin = vfClockNow()
	if vfConfig("POOL", 0) == 1 {
		vfSetPoolMode(vfConfig("POOLMODE", 1))
	}
	var prob float32 = 1
	switch vfConfig("PROB", 1) {
	case 0:
		prob = 0
	case 2:
		prob = vfF32("admissionProbability") // any probability in [0,1]
		vfAssume(prob >= 0)
		vfAssume(prob <= 1)
	}
	h.s = NewStore[uint64, uint64](&StoreOptions[uint64, uint64]{
		MaxSize: capv, SecondaryCache: h.sec, Workers: vfConfig("WORKERS", 1), Probability: prob,
		EntryPool: vfConfig("POOL", 0) == 1,
		Listener: func(k, v uint64, r RemoveReason) { h.notes = append(h.notes, zzNote{k, v, r}) },
	})
	if vfConfig("FULL", 0) == 1 {
		// the hand-off queue (256 slots) may be found full at any demotion: the select in removeEntry may take its default branch
		vfMayBeFull(h.s.secondaryCacheBuf)
	}
	h.lossy = vfConfig("FULL", 0) == 1 || vfConfig("PROB", 1) != 1
	vfQuiesce()
	return h
}

func (h *zzHyb) settle() {
	h.s.Wait()
	vfQuiesce()
}

func (h *zzHyb) memCost() int64 {
	var t int64
	h.s.RangeEntry(func(e *Entry[uint64, uint64]) { t += e.weight.Load() })
	return t
}

// ZZ_C14_Seq: one client, N operations, workers keep up (settle after every call).
func ZZ_C14_Seq() {
	h := zzHybNew(1, false)
	s := h.s
	N := vfConfig("N", 4)
	promoted := false
	c06 := false
	for i := 0; i < N; i++ {
		op := vfChoose("op", 6)
		switch op {
		case 0, 1:
			h.next++
			var ttl int64
			if op == 1 {
				ttl = 1 << 29
			}
			_, residentBefore := s.shards[zzIndex(s, 1)].hashmap[1]
			ok := s.Set(1, h.next, 1, time.Duration(ttl))
			vfAssert("set-accepted", ok)
			// ghost for the known-finding region: key 1 was promoted from the secondary tier earlier and is now updated
			if promoted {
				vfNote("updatedAfterPromotion", 1)
			}
			if ttl == 0 && h.live && h.deadline != 0 && h.deadline <= h.now {
				c06 = true // plain Set on an expired, unreclaimed key: C06's known finding; liveness not asserted from here on
			}
			h.live, h.val = true, h.next
			if ttl != 0 {
				h.deadline = h.now + ttl
			} else if !residentBefore || (h.deadline != 0 && h.deadline <= h.now) {
				// a Set without TTL keeps the deadline of a live resident entry; a key that is not in memory
				// (it may have a copy in the secondary tier) gets a fresh entry without deadline
				h.deadline = 0
			}
			if ttl == 0 {
				vfNote("noTTL", 1)
			}
		case 2:
			h.next++
			s.Set(2, h.next, 1, 0) // pushes key 1 out of the one-slot memory tier
		case 3:
			_, inMem := s.shards[zzIndex(s, 1)].hashmap[1]
			v, hit, err := s.GetWithSecodary(1)
			vfAssert("get-no-error", err == nil)
			expired := h.live && h.deadline != 0 && h.deadline <= h.now
			if hit {
				vfReach("hit")
				vfAssert("hit-only-live-key", h.live)
				vfAssert("hit-value-is-last-completed-set", v == h.val)
				vfAssert("hit-not-expired", !expired)
				if !inMem {
					promoted = true
					vfReach("promoted-from-secondary")
				}
			} else if h.live && !expired && !c06 && !h.lossy {
				// C15: with probability 1, a working secondary and workers keeping up nothing set is lost
				vfFail("value-found-in-some-tier")
			}
		case 4:
			err := s.DeleteWithSecondary(1)
			vfAssert("delete-no-error", err == nil)
			h.live = false
			h.deadline = 0
			promoted = false
		case 5:
			h.now += 1 << 30
			vfClockSet(h.origin + h.now)
			s.timerwheel.clock.RefreshNowCache()
		}
		h.settle()
		vfAssert("memory-tier-within-max-size", h.memCost() <= 1)
	}
	vfReach("sequence-done")
}

// ZZ_C15_Demotion: every capacity eviction reaches the secondary tier before the entry leaves memory;
// with a failing secondary the error handler runs and memory stays bounded.
func ZZ_C15_Demotion() {
	h := zzHybNew(1, vfConfig("FAIL", 0) == 1)
	s := h.s
	n := vfConfig("N", 3)
	withTTL := vfChoose("withTTL", 2) == 1
	for i := 0; i < n; i++ {
		var ttl int64
		if withTTL {
			ttl = 1 << 29
			vfNote("noTTL", 0)
		} else {
			vfNote("noTTL", 1)
		}
		s.Set(uint64(i+1), uint64(100+i), 1, time.Duration(ttl))
		h.settle()
		vfNote("secFailures", int64(h.sec.failures))
		vfAssert("memory-tier-within-max-size", h.memCost() <= 1)
	}
	vfReach("filled")
	vfAssert("every-failure-reported-once", h.sec.handled == h.sec.failures)
	if h.sec.failures == 0 {
		// keys 1..n-1 were evicted for capacity: each must be in the secondary tier with the same value/cost/deadline
		for i := 0; i < n-1; i++ {
			e, ok := h.sec.m[uint64(i+1)]
			vfAssert("evicted-entry-in-secondary", ok && e.val == uint64(100+i) && e.cost == 1)
			if ok {
				vfAssert("deadline-carried-over", (e.expire != 0) == withTTL)
			}
			v, hit, err := s.GetWithSecodary(uint64(i + 1))
			vfAssert("evicted-entry-retrievable", err == nil && hit && v == uint64(100+i))
			h.settle()
		}
	}
}

// ZZ_C14_StalePromoted: promote from the secondary tier, update by Set, evict again, read.
func ZZ_C14_StalePromoted() {
	h := zzHybNew(1, false)
	s := h.s
	ttl := time.Duration(1 << 40)
	s.Set(1, 101, 1, ttl)
	h.settle()
	s.Set(2, 201, 1, ttl) // evicts key 1 -> demoted
	h.settle()
	v, hit, _ := s.GetWithSecodary(1) // promoted back (evicts key 2)
	vfAssert("promoted-value", hit && v == 101)
	h.settle()
	vfNote("updatedAfterPromotion", 1)
	s.Set(1, 102, 1, ttl) // update of the promoted entry
	h.settle()
	s.Set(2, 202, 1, ttl) // evicts key 1 again
	h.settle()
	vfReach("evicted-again")
	v2, hit2, _ := s.GetWithSecodary(1)
	vfAssert("never-older-than-last-completed-set", vfImplies(hit2, v2 == 102))
	vfAssert("updated-value-not-lost", hit2)
}

// ZZ_C14_DeleteRace: a Delete racing the demotion of the same entry never lets the deleted value come back.
func ZZ_C14_DeleteRace() {
	h := zzHybNew(1, false)
	s := h.s
	ttl := time.Duration(1 << 40)
	s.Set(1, 101, 1, ttl)
	h.settle()
	vfSetPreemptions(vfConfig("PRE", 1))
	done := make(chan int, 2)
	go func() { s.Set(2, 201, 1, ttl); done <- 1 }() // evicts key 1 -> hand-off to the worker
	go func() { _ = s.DeleteWithSecondary(1); done <- 1 }()
	<-done
	<-done
	vfSetPreemptions(0)
	h.settle()
	vfReach("settled")
	_, hit, _ := s.GetWithSecodary(1)
	vfAssert("deleted-value-never-served", !hit)
}

// ZZ_C14_Expired: a value past its deadline is served from neither tier.
func ZZ_C14_Expired() {
	h := zzHybNew(1, false)
	s := h.s
	s.Set(1, 101, 1, time.Duration(1<<29))
	h.settle()
	s.Set(2, 201, 1, 0) // demotes key 1
	h.settle()
	d := vfI64("advance")
	vfAssume(d >= 0)
	vfAssume(d <= 1<<31)
	// the cached clock was last refreshed at an arbitrary earlier instant (maintenance may be delayed): the copy
	// in the secondary tier is judged by the precise clock
	c := vfI64("cachedClockAt")
	vfAssume(c >= 0)
	vfAssume(c <= d)
	vfClockSet(h.origin + c)
	s.timerwheel.clock.RefreshNowCache()
	vfClockSet(h.origin + d)
	v, hit, _ := s.GetWithSecodary(1)
	vfReach("read")
	vfAssert("no-hit-at-or-after-deadline", vfImplies(hit, d < 1<<29))
	vfAssert("value", vfImplies(hit, v == 101))
	vfAssert("served-before-deadline", vfImplies(d < 1<<29, hit))
}

// ZZ_C15_LoaderDemotion: entries stored by the loader are demoted like entries stored by Set.
func ZZ_C15_LoaderDemotion() {
	h := zzHybNew(1, false)
	s := h.s
	ls := NewLoadingStore(s)
	loads := 0
	ls.Loader(func(ctx context.Context, key uint64) (Loaded[uint64], error) {
		loads++
		return Loaded[uint64]{Value: 500 + key, Cost: 1, TTL: time.Duration(1 << 40)}, nil
	})
	v1, err1 := ls.Get(context.Background(), 1)
	h.settle()
	v2, err2 := ls.Get(context.Background(), 2) // evicts key 1
	h.settle()
	vfReach("loaded-two")
	vfAssert("loads", err1 == nil && err2 == nil && v1 == 501 && v2 == 502 && loads == 2)
	vfNote("loaderEntry", 1)
	e, ok := h.sec.m[1]
	vfAssert("loader-entry-demoted-on-eviction", ok && e.val == 501)
	v, err := ls.Get(context.Background(), 1)
	vfAssert("found-without-reloading", err == nil && v == 501 && loads == 2)
	h.settle()
	vfAssert("memory-tier-within-max-size", h.memCost() <= 1)
}

// ZZ_C15_ReloadAfterSecondaryExpiry: loading hybrid cache, the copy in the secondary tier has passed its deadline,
// the loader runs again, and the freshly loaded entry is evicted later: it has to reach the secondary tier
// like any other loader-stored entry (its memory copy is newer than whatever the secondary tier held).
func ZZ_C15_ReloadAfterSecondaryExpiry() {
	h := zzHybNew(1, false)
	s := h.s
	ls := NewLoadingStore(s)
	loads := 0
	ls.Loader(func(ctx context.Context, key uint64) (Loaded[uint64], error) {
		loads++
		return Loaded[uint64]{Value: 500 + 10*uint64(loads) + key, Cost: 1, TTL: time.Duration(1 << 29)}, nil
	})
	v1, err1 := ls.Get(context.Background(), 1) // load #1: 511, deadline 2^29
	h.settle()
	_, err2 := ls.Get(context.Background(), 2) // load #2 evicts and demotes key 1
	h.settle()
	e, ok := h.sec.m[1]
	vfAssert("first-copy-demoted", err1 == nil && err2 == nil && v1 == 511 && ok && e.val == 511)
	d := vfI64("advance")
	vfAssume(d >= 1<<29)
	vfAssume(d <= 1<<31)
	c := vfI64("cachedClockAt") // the cached clock may be stale: the secondary copy is judged by the precise clock
	vfAssume(c >= 0)
	vfAssume(c <= d)
	vfClockSet(h.origin + c)
	s.timerwheel.clock.RefreshNowCache()
	vfClockSet(h.origin + d)
	v3, err3 := ls.Get(context.Background(), 1) // the secondary copy has expired: load #3
	h.settle()
	vfReach("reloaded")
	vfAssert("expired-secondary-copy-not-served", err3 == nil && v3 == 531 && loads == 3)
	_, err4 := ls.Get(context.Background(), 3) // evicts key 1 (or key 2) again
	h.settle()
	vfAssert("fourth-load", err4 == nil)
	if _, resident := s.shards[zzIndex(s, 1)].hashmap[1]; !resident {
		e, ok = h.sec.m[1]
		vfAssert("reloaded-entry-demoted-on-eviction", ok && e.val == 531)
		before := loads
		v5, err5 := ls.Get(context.Background(), 1)
		vfAssert("reloaded-entry-found-without-reloading", err5 == nil && v5 == 531 && loads == before)
	}
	h.settle()
	vfAssert("memory-tier-within-max-size", h.memCost() <= 1)
}

// ZZ_C15_PoolRecycled: hybrid cache with the entry pool on. An entry promoted from the secondary tier is evicted
// (it is clean, so it is dropped, not written back) and its object is recycled for another key: the new key's
// entry is not clean and must be demoted when it is evicted.
func ZZ_C15_PoolRecycled() {
	h := zzHybNew(1, false)
	s := h.s
	last := map[uint64]uint64{}
	check := func(label string) {
		h.settle()
		vfAssert(label+":memory-tier-within-max-size", h.memCost() <= 1)
		for k, v := range last {
			if _, resident := s.shards[zzIndex(s, k)].hashmap[k]; !resident {
				e, ok := h.sec.m[k]
				vfAssert(label+":evicted-entry-in-secondary", ok && e.val == v)
			}
		}
	}
	set := func(k, v uint64, label string) {
		s.Set(k, v, 1, 0)
		last[k] = v
		check(label)
	}
	set(1, 101, "s1")
	set(2, 201, "s2") // key 1 demoted, its object pooled
	v, hit, _ := s.GetWithSecodary(1)
	vfAssert("promoted", hit && v == 101)
	check("promote") // key 2 demoted
	set(2, 202, "s3") // key 1 (clean) dropped and pooled with whatever flags it has
	vfReach("recycling")
	set(3, 301, "s4") // may reuse the object of key 1; key 2 demoted
	set(4, 401, "s5") // key 3 must be demoted
	set(5, 501, "s6")
	v3, hit3, _ := s.GetWithSecodary(3)
	vfAssert("recycled-entry-value-not-lost", hit3 && v3 == 301)
}

// ZZ_C14_StaleAfterExpiry: an older copy lives in the secondary tier, a newer value with a TTL is set (memory
// only) and expires: the older copy must not come back, neither before nor after the wheel collects the entry.
func ZZ_C14_StaleAfterExpiry() {
	h := zzHybNew(1, false)
	s := h.s
	s.Set(1, 101, 1, 0)
	h.settle()
	s.Set(2, 201, 1, 0) // key 1 demoted, no deadline
	h.settle()
	_, demoted := h.sec.m[1]
	vfAssert("older-copy-in-secondary", demoted)
	s.Set(1, 102, 1, time.Duration(1<<29)) // newer value, memory only
	h.settle()
	d := vfI64("advance")
	vfAssume(d >= 0)
	vfAssume(d <= 1<<31)
	vfClockSet(h.origin + d)
	s.timerwheel.clock.RefreshNowCache()
	vfReach("read")
	v, hit, err := s.GetWithSecodary(1)
	vfAssert("before-collection:never-older-than-last-completed-set", err == nil && vfImplies(hit, vfAnd(v == 102, d < 1<<29)))
	h.settle()
	vfFireTickers() // the wheel collects what has expired
	h.settle()
	v, hit, err = s.GetWithSecodary(1)
	vfAssert("after-collection:never-older-than-last-completed-set", err == nil && vfImplies(hit, vfAnd(v == 102, d < 1<<29)))
}

// ZZ_C14_StaleAfterLostDemotion: the newer value is evicted but its demotion is dropped (full hand-off queue or
// admission probability below 1): the older copy in the secondary tier must not be served either.
func ZZ_C14_StaleAfterLostDemotion() {
	h := zzHybNew(1, false) // FULL=1 or PROB=2 from the configuration
	s := h.s
	s.Set(1, 101, 1, 0)
	h.settle()
	s.Set(2, 201, 1, 0) // key 1 demoted (or dropped)
	h.settle()
	s.Set(1, 102, 1, 0) // newer value; key 2 leaves memory
	h.settle()
	s.Set(2, 202, 1, 0) // key 1 leaves memory again: demoted or dropped
	h.settle()
	vfReach("evicted-again")
	v, hit, err := s.GetWithSecodary(1)
	vfAssert("never-older-than-last-completed-set", err == nil && vfImplies(hit, v == 102))
	v2, hit2, err2 := s.GetWithSecodary(2)
	vfAssert("other-key-never-older-than-last-completed-set", err2 == nil && vfImplies(hit2, v2 == 202))
}

// ZZ_C14_SetVsGet: a hybrid Get that missed in memory races a Set of the same key whose older copy lives in the
// secondary tier: once both have returned, the older copy is not what the cache holds.
func ZZ_C14_SetVsGet() {
	h := zzHybNew(1, false)
	s := h.s
	s.Set(1, 101, 1, 0)
	h.settle()
	s.Set(2, 201, 1, 0) // key 1 demoted
	h.settle()
	vfSetPreemptions(vfConfig("PRE", 1))
	done := make(chan int, 2)
	var gv uint64
	var ghit bool
	go func() { gv, ghit, _ = s.GetWithSecodary(1); done <- 1 }()
	go func() { s.Set(1, 102, 1, 0); done <- 1 }()
	<-done
	<-done
	vfSetPreemptions(0)
	vfReach("both-returned")
	vfAssert("racing-get-sees-old-or-new", vfImplies(ghit, gv == 101 || gv == 102))
	v, hit, err := s.GetWithSecodary(1)
	vfAssert("completed-set-not-undone-by-racing-promotion", err == nil && vfImplies(hit, v == 102))
	h.settle()
	v, hit, err = s.GetWithSecodary(1)
	vfAssert("completed-set-not-undone-after-drain", err == nil && vfImplies(hit, v == 102))
}

// ZZ_C14_UpdateVsEvict: a promoted (clean) entry is overwritten by one client while another client's Set evicts
// it: whichever way the race goes, the older copy in the secondary tier is not served afterwards.
func ZZ_C14_UpdateVsEvict() {
	h := zzHybNew(1, false)
	s := h.s
	s.Set(1, 101, 1, 0)
	h.settle()
	s.Set(2, 201, 1, 0) // key 1 demoted
	h.settle()
	v0, hit0, _ := s.GetWithSecodary(1) // promoted: memory holds a clean copy
	vfAssert("promoted", hit0 && v0 == 101)
	h.settle()
	vfSetPreemptions(vfConfig("PRE", 1))
	done := make(chan int, 2)
	go func() { s.Set(1, 102, 1, 0); done <- 1 }()
	go func() { s.Set(2, 202, 1, 0); done <- 1 }()
	<-done
	<-done
	vfSetPreemptions(0)
	h.settle()
	vfReach("both-returned")
	v, hit, err := s.GetWithSecodary(1)
	vfAssert("never-older-than-last-completed-set", err == nil && vfImplies(hit, v == 102))
}

// ZZ_C14_LoadingVariants: the loading Get of a hybrid cache follows the same rules: racing a Set it never
// leaves the older secondary copy in place of the completed Set, and after the newer value has expired it runs
// the loader instead of serving the older copy.
func ZZ_C14_LoadingVariants() {
	h := zzHybNew(1, false)
	s := h.s
	ls := NewLoadingStore(s)
	loads := 0
	ls.Loader(func(ctx context.Context, key uint64) (Loaded[uint64], error) {
		loads++
		return Loaded[uint64]{Value: 900 + uint64(loads), Cost: 1}, nil
	})
	s.Set(1, 101, 1, 0)
	h.settle()
	s.Set(2, 201, 1, 0) // key 1 demoted
	h.settle()
	if vfConfig("MODE", 0) == 0 {
		vfSetPreemptions(vfConfig("PRE", 1))
		done := make(chan int, 2)
		var gv uint64
		go func() { gv, _ = ls.Get(context.Background(), 1); done <- 1 }()
		go func() { s.Set(1, 102, 1, 0); done <- 1 }()
		<-done
		<-done
		vfSetPreemptions(0)
		vfReach("done")
		vfAssert("racing-loading-get-sees-old-or-new", gv == 101 || gv == 102)
		v, hit, err := s.GetWithSecodary(1)
		vfAssert("completed-set-not-undone-by-racing-loading-get", err == nil && vfImplies(hit, v == 102))
		return
	}
	s.Set(1, 102, 1, time.Duration(1<<29)) // newer value with a deadline, memory only
	h.settle()
	d := vfI64("advance")
	vfAssume(d >= 0)
	vfAssume(d <= 1<<31)
	vfClockSet(h.origin + d)
	s.timerwheel.clock.RefreshNowCache()
	vfReach("done")
	v, err := ls.Get(context.Background(), 1)
	vfAssert("loading-get-never-serves-the-older-copy", err == nil && v != 101)
	vfAssert("loading-get-serves-live-value-or-loads", vfIte64(d < 1<<29, 1, 0) == vfIte64(v == 102, 1, 0))
}

// ZZ_C14_DeleteVsGet: a hybrid Delete of a key that lives in the secondary tier races a hybrid Get of the same key.
func ZZ_C14_DeleteVsGet() {
	h := zzHybNew(1, false)
	s := h.s
	ttl := time.Duration(1 << 40)
	s.Set(1, 101, 1, ttl)
	h.settle()
	s.Set(2, 201, 1, ttl) // demotes key 1
	h.settle()
	vfSetPreemptions(vfConfig("PRE", 1))
	done := make(chan int, 2)
	go func() { _ = s.DeleteWithSecondary(1); done <- 1 }()
	go func() { _, _, _ = s.GetWithSecodary(1); done <- 1 }()
	<-done
	<-done
	vfSetPreemptions(0)
	h.settle()
	vfReach("settled")
	_, hit, _ := s.GetWithSecodary(1)
	vfAssert("deleted-value-never-served-after-racing-get", !hit)
}

// ZZ_C14_HybridLoadingExpiry: hybrid loading cache: a value promoted from the secondary tier by a loading Get
// keeps its deadline: it is not served at or after it, by Get, loading Get or Range.
func ZZ_C14_HybridLoadingExpiry() {
	h := zzHybNew(1, false)
	s := h.s
	ls := NewLoadingStore(s)
	loads := 0
	ls.Loader(func(ctx context.Context, key uint64) (Loaded[uint64], error) {
		loads++
		return Loaded[uint64]{Value: 900 + key, Cost: 1, TTL: time.Duration(1 << 29)}, nil
	})
	s.Set(1, 101, 1, time.Duration(1<<29))
	h.settle()
	s.Set(2, 201, 1, 0) // demotes key 1 (deadline 2^29)
	h.settle()
	v, err := ls.Get(context.Background(), 1) // promoted from the secondary tier, before the deadline
	vfAssert("promoted-by-loading-get", err == nil && v == 101 && loads == 0)
	h.settle()
	if e, ok := s.shards[zzIndex(s, 1)].hashmap[1]; ok {
		vfAssert("promoted-entry-keeps-its-deadline", e.expire.Load() == 1<<29)
	}
	d := vfI64("advance")
	vfAssume(d >= 0)
	vfAssume(d <= 1<<31)
	vfClockSet(h.origin + d)
	s.timerwheel.clock.RefreshNowCache()
	vfReach("read")
	gv, hit := s.Get(1)
	vfAssert("get-no-hit-at-or-after-deadline", vfImplies(hit, vfAnd(d < 1<<29, gv == 101)))
	seen := false
	s.Range(func(k, v uint64) bool {
		if k == 1 {
			seen = true
		}
		return true
	})
	vfAssert("range-no-visit-at-or-after-deadline", vfImplies(seen, d < 1<<29))
	lv, lerr := ls.Get(context.Background(), 1)
	vfAssert("loading-get-no-stale-value-after-deadline", lerr == nil && vfImplies(d >= 1<<29, lv != 101))
}
