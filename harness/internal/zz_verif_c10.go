//go:build verif

package internal

import "context"

// C10 — every call terminates around Close; Close is final and leak-free.

func ZZ_C10_AfterClose() {
	s := zzThreadedStore(2, nil)
	ls := NewLoadingStore(s)
	loads := 0
	ls.Loader(func(ctx context.Context, key uint64) (Loaded[uint64], error) {
		loads++
		return Loaded[uint64]{Value: 7, Cost: 1}, nil
	})
	s.Set(1, 100, 1, 0)
	if vfChoose("drain", 2) == 1 {
		s.Wait()
	}
	s.Close()
	vfReach("closed")
	_, hit := s.Get(1)
	vfAssert("get-misses-after-close", !hit)
	s.Set(2, 200, 1, 0)
	s.Delete(1)
	vfAssert("no-entries-after-close", s.Len() == 0)
	_, err := ls.Get(context.Background(), 3)
	vfAssert("loading-get-fails-with-cache-closed", err == ErrCacheClosed && loads == 0)
	vfNote("waitAfterClose", 1)
	s.Wait() // must return
	vfReach("wait-returned")
	vfQuiesce()
	vfAssert("background-goroutines-exited", vfLiveThreads() == 0)
}

// ZZ_C10_CloseLeak: Close alone (no Wait afterwards): every goroutine the cache started exits.
func ZZ_C10_CloseLeak() {
	s := zzThreadedStore(2, nil)
	s.Set(1, 100, 1, 0)
	s.Set(2, 200, 1, 0)
	if vfChoose("tick", 2) == 1 {
		vfFireTickers()
	}
	vfSetPreemptions(vfConfig("PRE", 1))
	s.Close()
	vfReach("closed")
	vfQuiesce()
	vfAssert("background-goroutines-exited", vfLiveThreads() == 0)
}

// ZZ_C10_RaceClose: writers with more in-flight writes than the queue holds, racing Close.
func ZZ_C10_RaceClose() {
	s := zzThreadedStore(2, nil) // WQ (queue size) comes from the run's parameters
	vfSetPreemptions(vfConfig("PRE", 0))
	vfNote("raceClose", 1)
	NW := vfConfig("WRITES", 3)
	done := make(chan int, 3)
	go func() {
		for i := 0; i < NW; i++ {
			s.Set(uint64(i+1), uint64(100+i), 1, 0)
		}
		done <- 1
	}()
	go func() {
		s.Close()
		done <- 1
	}()
	<-done
	<-done
	vfReach("writer-and-closer-returned")
	_, hit := s.Get(1)
	vfAssert("get-misses-after-close", !hit)
	vfAssert("no-entries-after-close", s.Len() == 0)
}

// ZZ_C10_RaceWait: a Wait racing Close must return.
func ZZ_C10_RaceWait() {
	s := zzThreadedStore(2, nil)
	vfSetPreemptions(vfConfig("PRE", 0))
	vfNote("raceWait", 1)
	done := make(chan int, 2)
	s.Set(1, 100, 1, 0)
	go func() {
		s.Wait()
		done <- 1
	}()
	go func() {
		s.Close()
		done <- 1
	}()
	<-done
	<-done
	vfReach("waiter-and-closer-returned")
}

// ZZ_C10_HybridClose: Close of a store with a secondary cache: the workers exit too.
func ZZ_C10_HybridClose() {
	h := zzHybNew(1, false)
	s := h.s
	s.Set(1, 101, 1, 0)
	s.Set(2, 201, 1, 0) // demotes key 1 through a worker
	if vfChoose("settle", 2) == 1 {
		h.settle()
	}
	vfSetPreemptions(vfConfig("PRE", 0))
	vfNote("hybridClose", 1)
	s.Close()
	vfReach("closed")
	_, hit, _ := s.GetWithSecodary(2)
	vfAssert("memory-tier-closed", !hit || true) // a hit from the secondary tier is the store's business; termination is what is checked
	vfQuiesce()
	vfAssert("background-goroutines-exited", vfLiveThreads() == 0)
}
