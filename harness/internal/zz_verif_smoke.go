//go:build verif

package internal

import "sync"

// Smoke harnesses used by the engine self-test.

func ZZ_Smoke_Arith() {
	x := vfU64("x")
	y := vfU64("y")
	vfAssume(x < 100 && y < 100)
	z := x + y
	vfReach("end")
	vfAssert("sum-bound", z < 199)
	vfAssert("sum-bound-wrong", z < 198)
}

func ZZ_Smoke_Sketch() {
	s := NewCountMinSketch()
	h := vfU64("h")
	before := s.Estimate(h)
	s.Add(h)
	after := s.Estimate(h)
	vfReach("end")
	vfAssert("estimate-grows", after == before+1)
}

func ZZ_Smoke_Store() {
	s := NewStore[uint64, uint64](&StoreOptions[uint64, uint64]{MaxSize: 10})
	ok := s.Set(1, 100, 1, 0)
	v, hit := s.Get(1)
	vfReach("end")
	vfAssert("set-ok", ok)
	vfAssert("get-hit", hit && v == 100)
	s.Wait()
	vfAssert("size", s.EstimatedSize() == 1)
}

// ZZ_Smoke_Race: a planted data race (two unsynchronised writers) must be reported by the race monitor,
// and the same program with a mutex must not.
func ZZ_Smoke_Race() {
	vfSetRaceDetector(true)
	vfSetPreemptions(1)
	locked := vfConfig("LOCKED", 0) == 1
	var mu sync.Mutex
	x := 0
	done := make(chan int, 2)
	for i := 0; i < 2; i++ {
		go func() {
			if locked {
				mu.Lock()
			}
			x++
			if locked {
				mu.Unlock()
			}
			done <- 1
		}()
	}
	<-done
	<-done
	vfReach("end")
	vfAssertNoRace("no-data-race")
	vfAssert("sum", x == 2 || !locked)
}
