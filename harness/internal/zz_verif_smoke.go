//go:build verif

package internal

// Smoke harnesses used by the engine self-test.

func ZZ_Smoke_Arith() {
	x := vfU64("x")
	y := vfU64("y")
	vfAssume(x < 100 && y < 100)
	z := x + y
	vfReach("end")
	vfAssert("sum-bound", z < 199)
	vfAssert("sum-bound-wrong", z < 198)
}

func ZZ_Smoke_Sketch() {
	s := NewCountMinSketch()
	h := vfU64("h")
	before := s.Estimate(h)
	s.Add(h)
	after := s.Estimate(h)
	vfReach("end")
	vfAssert("estimate-grows", after == before+1)
}

func ZZ_Smoke_Store() {
	s := NewStore[uint64, uint64](&StoreOptions[uint64, uint64]{MaxSize: 10})
	ok := s.Set(1, 100, 1, 0)
	v, hit := s.Get(1)
	vfReach("end")
	vfAssert("set-ok", ok)
	vfAssert("get-hit", hit && v == 100)
	s.Wait()
	vfAssert("size", s.EstimatedSize() == 1)
}
