//go:build verif

package internal

import (
	"context"
	"time"
)

// C06 — a successful Set is visible and never lost without a reason.
// One client issues a bounded history of real API calls chosen nondeterministically; costs, TTLs and clock
// advances are symbolic; a reference model in the harness predicts results.

type zzC06Ent struct {
	live     bool
	val      uint64
	cost     int64
	deadline int64 // 0 = none
}

type zzC06Note struct {
	key, val uint64
	reason   RemoveReason
}

type zzC06 struct {
	s          *Store[uint64, uint64]
	origin     int64
	now        int64 // ns since cache start (symbolic)
	capv       int64
	model      [3]zzC06Ent // keys 1,2
	rejected   [3]bool
	pressure   bool
	notes      []zzC06Note
	nextVal    uint64
	door       bool
	lastCostFn int64
	// ledger for the notification, accounting and counter clauses (C05, C02, C16) checked on the same histories
	gets, hits  uint64
	finals      []zzC06Final // every accepted value that was not overwritten in place
	everDeleted [3]bool
	ls          *LoadingStore[uint64, uint64] // MENU=1: loading Gets over the same store
}

// zzC06Final: an accepted value that left (or will leave) the cache as a whole entry: by Delete, eviction, expiry -
// or that is still resident at the end. replaced = overwritten in place by a later Set (then it is never notified).
type zzC06Final struct {
	key, val uint64
	deleted  bool
	replaced bool
}

func (h *zzC06) get(k uint64) (uint64, bool) {
	v, ok := h.s.Get(k)
	h.gets++
	if ok {
		h.hits++
	}
	return v, ok
}

func zzC06New() *zzC06 {
	vfSetHashMode(1)
	h := &zzC06{nextVal: 100}
	if vfConfig("POOL", 0) == 1 {
		vfSetPoolMode(vfConfig("POOLMODE", 1)) // entry pool on: a collected entry's object is recycled by the next insert
	}
	h.capv = int64(vfConfig("CAP", 3))
	h.door = vfConfig("DOOR", 0) == 1
	h.origin = vfClockNow()
	StripedBufferSize = 1 // a function of the machine (4 x rounded parallelism): one read stripe, so the stripe pick is not a fork
	h.s = NewStore[uint64, uint64](&StoreOptions[uint64, uint64]{
		MaxSize:    h.capv,
		Doorkeeper: h.door,
		EntryPool:  vfConfig("POOL", 0) == 1,
		Cost: func(v uint64) int64 {
			c := vfI64("costfn")
			vfAssume(c >= 1)
			vfAssume(c <= h.capv+2)
			h.lastCostFn = c
			return c
		},
		Listener: func(k, v uint64, r RemoveReason) {
			h.notes = append(h.notes, zzC06Note{k, v, r})
		},
	})
	vfQuiesce() // start-up settles: the ticker exists before the first tick is fired
	return h
}

func (h *zzC06) occupied() int64 {
	var t int64
	for k := 1; k <= 2; k++ {
		if h.model[k].live {
			t += h.model[k].cost
		}
	}
	return t
}

func (h *zzC06) expired(k int) bool {
	e := h.model[k]
	return e.live && e.deadline != 0 && e.deadline <= h.now
}

func (h *zzC06) doSet(k int) {
	s := h.s
	cost := vfI64("cost")
	vfAssume(cost >= 0) // 0 = use the cost function
	vfAssume(cost <= h.capv+2)
	withTTL := vfChoose("withTTL", 2) == 1
	var ttl int64
	if withTTL {
		ttl = vfI64("ttl")
		vfAssume(ttl >= 1)
		vfAssume(ttl <= 1<<29) // bound: keeps the entry on the finest wheel (placement is C04's subject)
	}
	h.nextVal++
	v := h.nextVal
	nFn := len(h.notes)
	_ = nFn
	// effective cost: the cost function's answer when cost == 0. The harness learns it from a ghost:
	// the next "costfn" value is symbolic, so pin it by observing what the store recorded.
	prevEnt, prevPresent := s.shards[zzIndex(s, uint64(k))].hashmap[uint64(k)]
	var prevVal uint64
	if prevPresent {
		prevVal = prevEnt.value
	}
	ok := s.Set(uint64(k), v, cost, time.Duration(ttl))
	if ok {
		if prevPresent {
			// overwritten in place: the previous value is never reported
			for i := range h.finals {
				if h.finals[i].key == uint64(k) && h.finals[i].val == prevVal {
					h.finals[i].replaced = true
				}
			}
		}
		h.finals = append(h.finals, zzC06Final{key: uint64(k), val: v})
	}
	shard := s.shards[zzIndex(s, uint64(k))]
	ent, present := shard.hashmap[uint64(k)]
	eff := cost
	if cost == 0 {
		// cost-function path: effective cost is whatever the function returned; if stored, read it back
		if present && ent.value == v {
			eff = ent.weight.Load()
		} else {
			eff = -1 // unknown (rejected): must have been > cap or a first sight
		}
	}
	wasLive := h.model[k].live
	// ghost for the known-finding region: plain Set on a key whose previous value has expired but is not yet reclaimed
	vfNote("expiredUpdateNoTTL", vfIte64(vfAnd(wasLive && !withTTL, h.expired(k)), 1, 0))
	if ok {
		vfReach("set-true")
		vfAssert("set-true-implies-cost-within-max", eff >= 1 && eff <= h.capv)
		vfAssert("set-true-stored", present && ent.value == v)
		// immediately readable (ttl >= 1 and no time passes)
		s.timerwheel.clock.RefreshNowCache()
		gv, hit := h.get(uint64(k))
		vfAssert("set-true-immediately-readable", hit && gv == v)
		dl := int64(0)
		if withTTL {
			dl = h.now + ttl
		} else if wasLive && !h.expired(k) {
			dl = h.model[k].deadline // an update without TTL keeps a deadline that is still in the future
		}
		if !withTTL && wasLive && h.expired(k) {
			vfReach("set-on-expired-without-ttl")
			// the previous value already expired: the new value is a fresh entry with no deadline
			vfAssert("fresh-entry-after-expiry-has-no-deadline", present && ent.expire.Load() == 0)
		}
		h.model[k] = zzC06Ent{live: true, val: v, cost: eff, deadline: dl}
		if h.occupied() > h.capv {
			h.pressure = true
		}
	} else {
		vfReach("set-false")
		if cost != 0 {
			first := h.door && !wasLive
			vfAssert("set-false-only-oversize-or-first-sight", cost > h.capv || first)
			if cost <= h.capv {
				vfAssert("second-sight-accepted", !h.rejected[k])
				h.rejected[k] = true
			}
		}
		// nothing stored, previous value untouched
		if wasLive && !h.pressure {
			vfAssert("set-false-keeps-old-value", present && ent.value == h.model[k].val)
		} else if !wasLive {
			vfAssert("set-false-stores-nothing", !present)
		}
	}
}

func zzIndex(s *Store[uint64, uint64], k uint64) int {
	_, i := s.index(k)
	return i
}

func (h *zzC06) doGet(k int) {
	s := h.s
	s.timerwheel.clock.RefreshNowCache() // fresh cached clock: staleness is C03's subject
	v, hit := h.get(uint64(k))
	e := h.model[k]
	if hit {
		vfAssert("hit-only-live-key", e.live)
		vfAssert("hit-value-is-latest", v == e.val)
		vfAssert("hit-not-expired", !h.expired(k))
	} else if e.live && !h.expired(k) && !h.pressure {
		vfFail("live-unexpired-key-readable-without-pressure")
	}
}

func (h *zzC06) doDelete(k int) {
	_, wasPresent := h.s.shards[zzIndex(h.s, uint64(k))].hashmap[uint64(k)]
	h.s.Delete(uint64(k))
	h.everDeleted[k] = true
	if wasPresent {
		for i := range h.finals {
			if h.finals[i].key == uint64(k) && !h.finals[i].replaced && !h.finals[i].deleted && h.finals[i].val == h.model[k].val {
				h.finals[i].deleted = true
			}
		}
	}
	h.model[k] = zzC06Ent{}
	_, hit := h.get(uint64(k))
	vfAssert("deleted-key-absent", !hit)
}

func (h *zzC06) doAdvance() {
	d := vfI64("advance")
	vfAssume(d >= 0)
	vfAssume(d <= 1<<30)
	h.now += d
	vfClockSet(h.origin + h.now)
}

func (h *zzC06) doMaintain(tick bool) {
	h.s.Wait()
	if tick {
		vfFireTickers()
		vfQuiesce()
	}
	// reclaimed entries leave the model's occupancy only through a notification
	for _, n := range h.notes {
		k := int(n.key)
		if n.reason == EXPIRED && h.model[k].live && h.model[k].val == n.val {
			vfAssert("expired-notification-only-after-deadline", h.expired(k))
			h.model[k] = zzC06Ent{}
		}
	}
}

func (h *zzC06) finish() {
	h.s.Wait()
	vfReach("history-done")
	for _, n := range h.notes {
		if n.reason == EVICTED {
			vfAssert("no-eviction-without-capacity-pressure", h.pressure)
		}
	}
	for k := 1; k <= 2; k++ {
		h.doGet(k)
	}
	var total int64
	h.s.RangeEntry(func(e *Entry[uint64, uint64]) { total += e.weight.Load() })
	vfAssert("resident-cost-within-max", total <= h.capv)
	h.ledger()
}

// ledger: the clauses of C02 (accounting after drain), C05 (one notification per departed entry, true reason) and
// C16 (counters, size views) on the history just executed.
func (h *zzC06) ledger() {
	s := h.s
	s.Wait()
	zzAccounted(s, "history")
	zzOnWheel(s, "history")
	zzViews(s, "history")
	for _, f := range h.finals {
		n := 0
		var last zzC06Note
		for _, x := range h.notes {
			if x.key == f.key && x.val == f.val {
				n++
				last = x
			}
		}
		e, present := s.shards[zzIndex(s, f.key)].hashmap[f.key]
		resident := present && e.value == f.val
		if f.replaced {
			vfAssert("history:overwritten-value-never-notified", n == 0)
			continue
		}
		vfAssert("history:resident-xor-notified-exactly-once", (resident && n == 0) || (!resident && n == 1))
		if n == 1 {
			// REMOVED only for an entry an API Delete took; a deleted entry whose deadline had passed may
			// also be reported as expired (both are true reasons), never as evicted without pressure
			vfAssert("history:removed-reason-only-if-deleted", vfImplies(last.reason == REMOVED, f.deleted))
			vfAssert("history:deleted-entry-reported-removed-or-expired", vfImplies(f.deleted, last.reason == REMOVED || last.reason == EXPIRED))
		}
	}
	for _, x := range h.notes {
		known := false
		for _, f := range h.finals {
			if f.key == x.key && f.val == x.val {
				known = true
			}
		}
		vfAssert("history:notification-names-an-accepted-value", known)
	}
	st := s.Stats()
	vfAssert("history:hits-plus-misses-is-the-number-of-gets", st.Hits()+st.Misses() == h.gets)
	vfAssert("history:hits-is-the-number-of-values-returned", st.Hits() == h.hits)
}

// doRange (MENU=1): Range visits every key at most once, only live and unexpired keys, with their latest value;
// without capacity pressure it visits every live, unexpired key (C01 / C16 clauses on the same histories).
func (h *zzC06) doRange() {
	s := h.s
	s.timerwheel.clock.RefreshNowCache()
	var seen [3]int
	s.Range(func(k, v uint64) bool {
		if k < 1 || k > 2 {
			vfFail("range-visits-unknown-key")
			return true
		}
		seen[k]++
		e := h.model[k]
		vfAssert("range-visits-only-live-keys", e.live)
		vfAssert("range-value-is-latest", v == e.val)
		vfAssert("range-skips-expired", !h.expired(int(k)))
		return true
	})
	for k := 1; k <= 2; k++ {
		vfAssert("range-visits-a-key-once", seen[k] <= 1)
		if h.model[k].live && !h.expired(k) && !h.pressure {
			vfAssert("range-visits-every-live-key", seen[k] == 1)
		}
	}
	// stops when the callback says so
	calls := 0
	s.Range(func(k, v uint64) bool { calls++; return false })
	vfAssert("range-stops-when-told", calls <= 1)
}

// doLoad (MENU=1): a loading Get over the same store. A hit returns the model's value; otherwise the loader runs
// once, its value is returned, and it is stored under the same rule as Set (cost within MaxSize; cost 0 = the cost
// function; its own TTL or none - never the deadline of an expired predecessor).
func (h *zzC06) doLoad(k int) {
	s := h.s
	if h.ls == nil {
		h.ls = NewLoadingStore(s)
	}
	s.timerwheel.clock.RefreshNowCache()
	lc := vfI64("loaderCost")
	vfAssume(lc >= 0)
	vfAssume(lc <= h.capv+2)
	withTTL := vfChoose("loadTTL", 2) == 1
	var ttl int64
	if withTTL {
		ttl = vfI64("lttl")
		vfAssume(ttl >= 1)
		vfAssume(ttl <= 1<<29)
	}
	h.nextVal++
	v := h.nextVal
	calls := 0
	h.lastCostFn = -1
	h.ls.Loader(func(ctx context.Context, key uint64) (Loaded[uint64], error) {
		calls++
		return Loaded[uint64]{Value: v, Cost: lc, TTL: time.Duration(ttl)}, nil
	})
	prevEnt, prevPresent := s.shards[zzIndex(s, uint64(k))].hashmap[uint64(k)]
	var prevVal uint64
	if prevPresent {
		prevVal = prevEnt.value
	}
	got, err := h.ls.Get(context.Background(), uint64(k))
	h.gets++
	e := h.model[k]
	vfAssert("load-no-error", err == nil)
	vfAssert("loader-runs-at-most-once", calls <= 1)
	if calls == 0 {
		h.hits++
		vfAssert("load-hit-only-live-key", e.live)
		vfAssert("load-hit-value-is-latest", got == e.val)
		vfAssert("load-hit-not-expired", !h.expired(k))
		return
	}
	vfReach("loader-ran")
	vfAssert("load-returns-loaded-value", got == v)
	if e.live && !h.expired(k) && !h.pressure {
		vfFail("loader-ran-for-a-live-unexpired-key")
	}
	eff := lc
	if lc == 0 {
		eff = h.lastCostFn
		vfAssert("cost-function-consulted-for-cost-0", eff >= 1)
	}
	ent, present := s.shards[zzIndex(s, uint64(k))].hashmap[uint64(k)]
	stored := present && ent.value == v
	if stored {
		vfAssert("loaded-value-stored-only-within-max", eff >= 1 && eff <= h.capv)
		vfAssert("loaded-cost-recorded", ent.weight.Load() == eff)
		if withTTL {
			vfAssert("loaded-deadline-is-its-own", ent.expire.Load() == h.now+ttl)
		} else {
			vfAssert("loaded-without-ttl-has-no-deadline", ent.expire.Load() == 0)
		}
		if prevPresent {
			for i := range h.finals {
				if h.finals[i].key == uint64(k) && h.finals[i].val == prevVal {
					h.finals[i].replaced = true
				}
			}
		}
		h.finals = append(h.finals, zzC06Final{key: uint64(k), val: v})
		dl := int64(0)
		if withTTL {
			dl = h.now + ttl
		}
		h.model[k] = zzC06Ent{live: true, val: v, cost: eff, deadline: dl}
		if h.occupied() > h.capv {
			h.pressure = true
		}
		gv, hit := h.get(uint64(k))
		vfAssert("loaded-value-immediately-readable", hit && gv == v)
	} else {
		if !h.door {
			vfAssert("loaded-value-within-max-is-stored", eff > h.capv)
		}
		if !e.live {
			vfAssert("unstored-load-leaves-nothing", !present)
		}
	}
}

func ZZ_C06_History() {
	h := zzC06New()
	N := vfConfig("N", 3)
	menu := 7
	if vfConfig("MENU", 0) == 1 {
		menu = 10 // also: Range, loading Get k1, loading Get k2
	}
	for i := 0; i < N; i++ {
		op := vfChoose("op", menu)
		switch op {
		case 7:
			h.doRange()
		case 8, 9:
			h.doLoad(op - 7)
		case 0, 1:
			h.doSet(op + 1)
		case 2:
			h.doGet(1)
		case 3:
			h.doDelete(1)
		case 4:
			h.doAdvance()
		case 5:
			h.doMaintain(false)
		case 6:
			h.doMaintain(true)
		}
	}
	h.finish()
}

// ZZ_C06_ExpiredUpdate: the targeted sequence TTL-write, deadline passes (not yet reclaimed), plain write.
func ZZ_C06_ExpiredUpdate() {
	h := zzC06New()
	s := h.s
	ttl := vfI64("ttl")
	vfAssume(ttl >= 1)
	vfAssume(ttl <= 1<<40)
	ok := s.Set(1, 7, 1, time.Duration(ttl))
	vfAssert("first-set", ok)
	if vfChoose("drain", 2) == 1 {
		s.Wait()
	}
	d := vfI64("advance")
	vfAssume(d >= ttl)
	vfAssume(d <= 1<<41)
	vfClockSet(h.origin + d)
	s.timerwheel.clock.RefreshNowCache()
	_, hit0 := s.Get(1)
	vfAssert("old-value-expired", !hit0)
	ok2 := s.Set(1, 9, 1, 0)
	vfReach("second-set")
	vfAssert("second-set-true", ok2)
	vfNote("expiredUpdateNoTTL", 1)
	v, hit := s.Get(1)
	vfAssert("set-on-expired-key-is-readable", hit && v == 9)
	d2 := vfI64("advance2")
	vfAssume(d2 >= 0)
	vfAssume(d2 <= 1<<41)
	vfClockSet(h.origin + d + d2)
	s.timerwheel.clock.RefreshNowCache()
	v2, hit2 := s.Get(1)
	vfAssert("ttl-less-value-never-expires", hit2 && v2 == 9)
}

// ZZ_C06_Loader: a value whose cost exceeds MaxSize is never admitted by the loader path either.
func ZZ_C06_Loader() {
	h := zzC06New()
	s := h.s
	ls := NewLoadingStore(s)
	lc := vfI64("loaderCost")
	vfAssume(lc >= 0) // 0 = the cost function decides
	vfAssume(lc <= h.capv+5)
	ls.Loader(func(ctx context.Context, key uint64) (Loaded[uint64], error) {
		return Loaded[uint64]{Value: 500 + key, Cost: lc}, nil
	})
	ok := s.Set(1, 7, 1, 0)
	vfAssert("resident-set", ok)
	s.Wait()
	v, err := ls.Get(context.Background(), 2)
	vfAssert("loader-result-returned", err == nil && v == 502)
	s.Wait()
	vfReach("loaded")
	shard := s.shards[zzIndex(s, 2)]
	ent, present := shard.hashmap[2]
	eff := lc
	if lc == 0 {
		eff = h.lastCostFn // what the cost function answered for the loaded value
	}
	vfNote("loaderOversize", vfIte64(eff > h.capv, 1, 0))
	if present {
		vfAssert("oversize-loader-value-not-resident", ent.weight.Load() <= h.capv)
		vfAssert("loaded-cost-is-effective-cost", ent.weight.Load() == eff)
	}
	vfAssert("loaded-value-within-max-size-is-stored", vfImplies(eff <= h.capv, present))
	for _, n := range h.notes {
		if n.key == 1 && n.reason == EVICTED {
			vfAssert("oversize-loader-value-displaces-nothing", vfAnd(eff <= h.capv, eff+1 > h.capv))
		}
		if n.key == 2 {
			vfAssert("oversize-loader-value-never-notified", eff <= h.capv)
		}
	}
	var total int64
	s.RangeEntry(func(e *Entry[uint64, uint64]) { total += e.weight.Load() })
	vfAssert("loader-resident-cost-within-max", total <= h.capv)
}

// ZZ_C06_Doorkeeper: from an arbitrary doorkeeper state (any reset counter, any filter contents) a new key
// that is offered repeatedly is admitted: at the second sighting unless a filter reset fell between the two, and
// in any case within three sightings (Bloom filters have no false negatives; a reset restarts the counter).
func ZZ_C06_Doorkeeper() {
	vfSetHashMode(1)
	StripedBufferSize = 1
	s := NewStore[uint64, uint64](&StoreOptions[uint64, uint64]{MaxSize: 10, Doorkeeper: true})
	shard := s.shards[zzIndex(s, 1)]
	shard.counter = vfUint("counter")
	shard.dookeeper.Filter = vfSymU64Slice("filter", len(shard.dookeeper.Filter))
	c0 := shard.counter
	capD := uint(shard.dookeeper.Capacity)
	ok1 := s.Set(1, 100, 1, 0)
	ok2 := s.Set(1, 101, 1, 0)
	ok3 := s.Set(1, 102, 1, 0)
	vfReach("three-sets")
	// a reset of the filter forgets the key; it happens when the counter has passed the capacity, and then the
	// counter restarts from zero, so at most one of three consecutive sightings follows a reset
	vfAssert("second-sighting-admitted-unless-reset-between", vfImplies(c0 != capD, ok2))
	vfAssert("admitted-within-three-sightings", ok1 || ok2 || ok3)
	if !ok1 && ok2 {
		vfReach("first-sight-rejected")
		v, hit := s.Get(1)
		vfAssert("admitted-value-readable", hit && v == 102)
	}
	vfAssert("counter-bounded-by-capacity-plus-one", vfImplies(c0 <= capD+1, shard.counter <= capD+1))
}

// ZZ_C06_PoolRecycledDeadline: entry pool on. The object of an entry that had a TTL and has expired (or was
// evicted) is recycled for a new key stored without TTL: the new value is governed by its own call only, it is
// readable at once and never expires.
func ZZ_C06_PoolRecycledDeadline() {
	var notes []zzNote
	s := zzThreadedStore(int64(vfConfig("CAP", 10)), &notes) // POOL=1 from the configuration
	origin := vfClockNow()
	ttl := vfI64("ttl")
	vfAssume(ttl >= 1)
	vfAssume(ttl <= 1<<29)
	s.Set(1, 101, 1, time.Duration(ttl))
	s.Wait()
	if vfConfig("CAP", 10) == 1 {
		s.Set(2, 201, 1, time.Duration(ttl)) // capacity 1: one of the two is evicted and its object pooled
		s.Wait()
	} else {
		vfClockSet(origin + 1<<31) // the deadline passes and the wheel collects the entry: its object is pooled
		vfFireTickers()
		vfQuiesce()
		s.Wait()
		_, still := s.shards[zzIndex(s, 1)].hashmap[1]
		vfAssert("expired-entry-collected", !still)
	}
	vfReach("recycling")
	ok := s.Set(3, 301, 1, 0)
	v, hit := s.Get(3)
	vfAssert("set-true-immediately-readable", ok && hit && v == 301)
	s.Wait()
	d := vfI64("advance")
	vfAssume(d >= 0)
	vfAssume(d <= 1<<41)
	vfClockSet(origin + 1<<31 + d)
	s.timerwheel.clock.RefreshNowCache()
	vfFireTickers()
	vfQuiesce()
	s.Wait()
	if vfConfig("CAP", 10) != 1 {
		v, hit = s.Get(3)
		vfAssert("ttl-less-value-never-expires", hit && v == 301)
	} else if e, ok := s.shards[zzIndex(s, 3)].hashmap[3]; ok {
		vfAssert("ttl-less-entry-has-no-deadline", e.expire.Load() == 0)
	}
	for _, n := range notes {
		vfAssert("ttl-less-value-not-reported-expired", !(n.key == 3 && n.reason == EXPIRED))
	}
}
