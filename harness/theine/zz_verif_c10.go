//go:build verif

package theine

import (
	"context"

	"github.com/Yiling-J/theine-go/internal"
)

// C10 at the public API: Close of every cache flavour is final and leak-free.

type zzSecT struct {
	m map[uint64]uint64
}

func (c *zzSecT) Get(key uint64) (uint64, int64, int64, bool, error) {
	v, ok := c.m[key]
	return v, 1, 0, ok, nil
}
func (c *zzSecT) Set(key uint64, value uint64, cost int64, expire int64) error {
	c.m[key] = value
	return nil
}
func (c *zzSecT) Delete(key uint64) error { delete(c.m, key); return nil }
func (c *zzSecT) HandleAsyncError(err error) {}

func zzFlavour() (set func(k, v uint64), get func(k uint64) bool, closeFn func(), wait func()) {
	vfSetHashMode(1)
	internal.StripedBufferSize = 1
	switch vfConfig("FLAVOUR", 0) {
	case 0:
		c, err := NewBuilder[uint64, uint64](2).Build()
		vfAssert("build", err == nil)
		return func(k, v uint64) { c.Set(k, v, 1) }, func(k uint64) bool { _, ok := c.Get(k); return ok }, c.Close, c.Wait
	case 1:
		c, err := NewBuilder[uint64, uint64](2).BuildWithLoader(func(ctx context.Context, key uint64) (Loaded[uint64], error) {
			return Loaded[uint64]{Value: key, Cost: 1}, nil
		})
		vfAssert("build", err == nil)
		return func(k, v uint64) { c.Set(k, v, 1) }, func(k uint64) bool { _, err := c.Get(context.Background(), k); return err == nil }, c.Close, c.Wait
	case 2:
		c, err := NewBuilder[uint64, uint64](2).Hybrid(&zzSecT{m: map[uint64]uint64{}}).Workers(1).AdmProbability(1).Build()
		vfAssert("build", err == nil)
		return func(k, v uint64) { c.Set(k, v, 1) }, func(k uint64) bool { _, ok, _ := c.Get(k); return ok }, c.Close, func() {}
	default:
		c, err := NewBuilder[uint64, uint64](2).Hybrid(&zzSecT{m: map[uint64]uint64{}}).Workers(1).AdmProbability(1).Loading(
			func(ctx context.Context, key uint64) (Loaded[uint64], error) {
				return Loaded[uint64]{Value: key, Cost: 1}, nil
			}).Build()
		vfAssert("build", err == nil)
		return func(k, v uint64) { c.Set(k, v, 1) }, func(k uint64) bool { _, err := c.Get(context.Background(), k); return err == nil }, c.Close, func() {}
	}
}

// ZZ_C10_PublicClose: after Close returned, Get misses (loading Get fails) and every goroutine the cache started has exited.
func ZZ_C10_PublicClose() {
	set, get, closeFn, wait := zzFlavour()
	vfQuiesce()
	set(1, 100)
	set(2, 200)
	set(3, 300)
	wait()
	vfNote("flavour", int64(vfConfig("FLAVOUR", 0)))
	closeFn()
	vfReach("closed")
	vfAssert("get-misses-or-fails-after-close", !get(1) && !get(3))
	set(4, 400)
	vfAssert("set-has-no-effect-after-close", !get(4))
	vfQuiesce()
	vfAssert("background-goroutines-exited", vfLiveThreads() == 0)
}
