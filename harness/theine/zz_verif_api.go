//go:build verif

package theine

// Harness API. These functions have no bodies: the symbolic executor (/verif/engine) intercepts them.
// Nondet* return a fresh symbolic value named by the argument; Assume/Assert/Reach are the
// CBMC-style primitives; the rest configures the environment model.

func vfU64(name string) uint64
func vfI64(name string) int64
func vfInt(name string) int
func vfUint(name string) uint
func vfU32(name string) uint32
func vfI32(name string) int32
func vfU8(name string) uint8
func vfI8(name string) int8
func vfBool(name string) bool
func vfF32(name string) float32
func vfChoose(name string, n int) int
func vfAssume(c bool)
func vfAssert(label string, c bool)
func vfReach(label string)
func vfNote(name string, v int64)
func vfImplies(a, b bool) bool
func vfAnd(a, b bool) bool
func vfOr(a, b bool) bool
func vfIte64(c bool, a, b int64) int64
func vfIteU64(c bool, a, b uint64) uint64
func vfClockNow() int64
func vfClockSet(t int64)
func vfClockAdvance(d int64)
func vfFireTickers() int
func vfActiveTickers() int
func vfQuiesce()
func vfYield()
func vfSetPreemptions(n int)
func vfSetAtomicVisible(b bool)
func vfSetPoolMode(mode int)
func vfSetHashMode(mode int)
func vfSetIdealRBMutex(b bool)
func vfSetRaceDetector(b bool)
func vfRaceCount() int
func vfAssertNoRace(label string)
func vfSymU64Slice(name string, n int) []uint64
func vfLiveThreads() int
func vfStepLimit(n int, label string)
func vfConcrete(v int64) int64
func vfMayBeFull(ch any)
func vfThreadID() int
func vfIsReplay() bool
func vfConfig(name string, def int) int
func vfUF64(name string, x uint64) uint64
func vfFail(label string)
func vfPrint(label string, v any)

// vfStub replaces every later call of the function whose full name ends in suffix by "count the call,
// return zero values" (a recorded cut); vfStubCalls reads the counter.
func vfStub(suffix string)
func vfUnstub(suffix string)
func vfStubCalls(suffix string) int

// vfStubNondet: like vfStub, but the stubbed (pure) callee returns fresh symbolic scalars — a sound
// over-approximation of any side-effect-free function of state the property does not constrain.
func vfStubNondet(suffix string)
func vfDigest(name string, v uint64)
