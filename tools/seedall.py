#!/usr/bin/env python3
"""Regression of the checks against every stored seeded change: applies seeded/<id>/patch.diff to a scratch worktree
of /repo HEAD and runs the quick check of every property named in meta.json's caught_by (falling back to
meta.property).  usage: tools/seedall.py [id-prefix ...]   report: seeded/seeds_report.json"""
import json, os, re, subprocess, sys, time
def sh(c, cwd=None, timeout=3600):
    p = subprocess.run(c, shell=True, cwd=cwd, capture_output=True, text=True, timeout=timeout)
    return p.returncode, p.stdout + p.stderr
sel = sys.argv[1:]
rep_path = "/verif/seeded/seeds_report.json"
rep = json.load(open(rep_path)) if os.path.exists(rep_path) else {}
for d in sorted(os.listdir("/verif/seeded")):
    sd = "/verif/seeded/" + d
    if not os.path.isfile(sd + "/patch.diff") or not os.path.isfile(sd + "/meta.json"):
        continue
    if sel and not any(d.startswith(s) for s in sel):
        continue
    meta = json.load(open(sd + "/meta.json"))
    if meta.get("superseded"):
        print(d, "superseded (equivalent on the current tree)", flush=True)
        rep[d] = {"status": "superseded", "why": meta["superseded"]}
        json.dump(rep, open(rep_path, "w"), indent=1)
        continue
    props = sorted(set(re.findall(r"\b(C\d\d)\b(?= (?:quick|/C\d\d quick))|\b(C\d\d)(?=/C\d\d quick)", " ".join(meta.get("caught_by", []))))) if False else []
    props = sorted(set(re.findall(r"\bC\d\d\b", " ".join(x.split(":")[0] for x in meta.get("caught_by", []))))) or [meta["property"]]
    wt = "/root/scratch/sa_wt_%d" % os.getpid(); ev = "/root/scratch/sa_ev_%d" % os.getpid()
    sh("git -C /repo worktree remove --force %s; git -C /repo worktree add -q %s HEAD" % (wt, wt))
    rc, out = sh("git apply %s/patch.diff && GOFLAGS=-mod=mod GOPROXY=off go build ./..." % sd, cwd=wt)
    res = {"props": props}
    if rc != 0:
        res["status"] = "patch-or-build-failed"; res["out"] = out[-300:]
    else:
        caught = []; t0 = time.time()
        for p in props:
            rc, out = sh("/verif/bin/gosmt check -prop %s -tier quick -repo %s -evdir %s" % (p, wt, ev))
            if rc == 1 and "VIOLATION" in out:
                caught.append(p)
                res.setdefault("labels", []).extend(sorted(set(re.findall(r'counterexample (\S+) label="([^"]+)"', out)))[:3])
            elif rc == 2:
                res.setdefault("inconclusive", []).append(p)
        res["status"] = "caught" if caught else "MISSED"; res["caught_by"] = caught; res["secs"] = int(time.time() - t0)
    print(d, res["status"], res.get("caught_by", ""), flush=True)
    rep[d] = res
    json.dump(rep, open(rep_path, "w"), indent=1)
    sh("git -C /repo worktree remove --force %s; rm -rf %s" % (wt, ev))
