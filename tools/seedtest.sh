#!/bin/sh
# usage: tools/seedtest.sh <patch.diff> <tier> <prop> [<prop>...]
# Applies a seeded change to a scratch worktree of /repo HEAD (never to /repo itself), runs the given checks
# against it with evidence redirected to a scratch directory, prints the verdicts and removes the worktree.
patch=$1; tier=$2; shift 2
wt=/root/scratch/seedwt_$$
ev=/root/scratch/seedev_$$
mkdir -p /root/scratch
git -C /repo worktree add -q "$wt" HEAD || exit 2
( cd "$wt" && git apply "$patch" ) || { echo "patch does not apply"; git -C /repo worktree remove --force "$wt"; exit 2; }
for p in "$@"; do
  /verif/bin/gosmt check -prop "$p" -tier "$tier" -repo "$wt" -evdir "$ev" 2>&1 | grep -E "^(VIOLATION|OK|INCONCLUSIVE|KNOWN-FINDING|  counterexample)" | cut -c1-260 | sort | uniq | head -12
  echo "== $p exit=$?"
done
git -C /repo worktree remove --force "$wt"
rm -rf "$ev"
