#!/usr/bin/env python3
"""Generates /verif/checks.json (harness runs per property and tier) and /verif/MANIFEST.json.
Edit the tables below, then run:  python3 tools/gen.py"""
import json, os

ROOT = os.path.dirname(os.path.dirname(os.path.abspath(__file__)))

COMMON_STUBS = [
    "time.Now/Since/Unix and Time methods: one global clock term, moved only by the harness (vfClockSet/Advance)",
    "time.NewTicker: channel fired only by the harness (vfFireTickers)",
    "sync.Mutex/RWMutex/WaitGroup: exact blocking semantics in the executor's scheduler (RWMutex without writer preference)",
    "sync.Pool: New-only, LIFO or adversarial choice per harness",
    "sync/atomic: indivisible memory operations (scheduling points when the harness asks)",
    "xxh3.HashString/Hash: uninterpreted function of the key's memory image, or a fixed concrete mixer (per harness)",
    "runtime.GOMAXPROCS/NumCPU = 1 (16 shards, 4 read stripes, write queue 64 unless overridden)",
    "math/rand(/v2): fresh symbolic value per call",
    "fmt.Sprintf/debug.Stack: empty; errors.Is/As: identity / dynamic-type based, no unwrapping",
]

def H(func, pkg="internal", params=None, max_paths=0, reach=None, bounds="", step_limit=0, timeout_s=0, solver=""):
    d = {"func": func, "pkg": pkg}
    if solver: d["solver"] = solver
    if params: d["params"] = params
    if max_paths: d["max_paths"] = max_paths
    if reach: d["reach"] = reach
    if bounds: d["bounds"] = bounds
    if step_limit: d["step_limit"] = step_limit
    if timeout_s: d["timeout_s"] = timeout_s
    return d

PROPS = {}

PROPS["C17"] = {
    "title": "frequency sketch",
    "technique": "SSA symbolic execution of CountMinSketch + SMT (z3): inductive lemmas, table as SMT array, all 64-bit hashes, table sizes 2^4..2^24",
    "level_text": "Bounded symbolic model checking of the real sketch code: each lemma (increment, bulk add, reset, growth, base) is decided by z3 for every 64-bit hash, every table content and every power-of-two table length 16..2^24 (reset loop: concrete lengths 16/32 plus a word-local lemma). The lemmas are one-step inductive over the representation invariant, so inside the stated widths they cover operation sequences of any length; this is bounded model checking, not a proof.",
    "level_note": "Trusted: go/ssa construction, the executor's bit-vector encoding (validated by the selftest differential against native runs), z3. reset() on tables longer than 32 words is covered by the word-local halving lemma plus the concrete-length runs, not by a symbolic-length loop. Addn bound n<=3 (quick 2).",
    "design_ref": "DESIGN.md §4 C17",
    "assumptions": ["representation invariant RI (len=2^k in 16..2^24, BlockMask=len/8-1, SampleSize=10*len, Additions<SampleSize) as pre-state of every step lemma; ZZ_C17_Base/Ensure show the constructor and growth establish it",
                    "reset() is replaced by a counting stub in the symbolic-length Add lemma and verified separately"],
    "outside_bound": ["table lengths above 2^24", "Addn with n>3 (saturation is reached by induction on the n<=3 lemma)", "reset() executed on symbolic-length tables"],
    "quick": [H("ZZ_C17_Base", reach=["constructed"], bounds="concrete constructor"),
              H("ZZ_C17_AddStep", reach=["after-add"], bounds="L=2^k symbolic 16..2^24, all h, all table contents"),
              H("ZZ_C17_Addn", params={"N": 2}, reach=["after-addn"], bounds="n<=2"),
              H("ZZ_C17_PopcountWord", reach=["word"], bounds="one arbitrary 64-bit word"),
              H("ZZ_C17_Reset", params={"L": 16}, reach=["after-reset"], bounds="L=16, all contents"),
              H("ZZ_C17_AddWithReset", params={"L": 16}, reach=["after-add", "reset-happened"], bounds="L=16"),
              H("ZZ_C17_Ensure", reach=["after-ensure", "grown"], bounds="size<=2^24, L symbolic")],
    "thorough": [H("ZZ_C17_Base", reach=["constructed"]),
                 H("ZZ_C17_AddStep", reach=["after-add"], bounds="L=2^k symbolic 16..2^24, all h, all table contents"),
                 H("ZZ_C17_Addn", params={"N": 3}, reach=["after-addn"], bounds="n<=3"),
                 H("ZZ_C17_PopcountWord", reach=["word"]),
                 H("ZZ_C17_Reset", params={"L": 16}, reach=["after-reset"]),
                 H("ZZ_C17_Reset", params={"L": 32}, reach=["after-reset"]),
                 H("ZZ_C17_AddWithReset", params={"L": 16}, reach=["after-add", "reset-happened"]),
                 H("ZZ_C17_AddWithReset", params={"L": 32}, reach=["after-add", "reset-happened"]),
                 H("ZZ_C17_Ensure", reach=["after-ensure", "grown"]),
                 # second solver on the same encodings (a disagreement fails the check)
                 H("ZZ_C17_AddStep", reach=["after-add"], solver="cvc5", bounds="cross-check with cvc5"),
                 H("ZZ_C17_Addn", params={"N": 2}, reach=["after-addn"], solver="cvc5", bounds="cross-check with cvc5"),
                 H("ZZ_C17_Reset", params={"L": 16}, reach=["after-reset"], solver="cvc5", bounds="cross-check with cvc5"),
                 H("ZZ_C17_Ensure", reach=["after-ensure", "grown"], solver="cvc5", bounds="cross-check with cvc5")],
}


PROPS["C03"] = {
    "title": "no entry served after its deadline",
    "technique": "SSA symbolic execution of Store.Set/Get/Range/LoadingStore.Get + SMT (z3): set time, TTL, read time and the cached-clock reading are 64-bit symbolic values",
    "level_text": "Bounded symbolic model checking of the real read paths: for every set time, TTL >= 1 (including overflowing ones), read time and every possible staleness of the cached clock, z3 decides that a hit implies read-time < deadline, that the deadline is exactly set-time+TTL (saturating), and that a later SetWithTTL replaces it. The claim is per call and covers all 64-bit values below 2^62 ns of uptime.",
    "level_note": "Trusted: go/ssa, the executor's encoding, z3; the clock stub (time moves only where the harness moves it). One key, capacity 10, no concurrent writers (interleavings with maintenance are explored only at the blocking points of the calls). Known finding: stale cached clock > 30 s (known_findings.json). Round 4 addition: a read right after LoadCache, before the first tick of the new cache, with saved uptime, TTL, downtime and read delay symbolic (found the defect repaired in dc1f929).",
    "assumptions": ["TTL >= 1 ns (negative TTLs are documented as the caller's problem)", "monotonic clock, uptime < 2^62 ns", "cached clock = some earlier reading C <= W of the true clock (arbitrary staleness)"],
    "outside_bound": ["uptime >= 2^62 ns", "more than one TTL update per key"],
    "quick": [H("ZZ_C03_AfterLoad", params={"BITS": 33, "UFIX": 1}, reach=["read-after-load"], bounds="read right after LoadCache, before the first tick: saved uptime 2^36 ns, TTL / downtime <= 2^33 ns and read delay < 2^29 ns symbolic"),
              H("ZZ_C03_Get", reach=["read-done", "hit"], bounds="all 64-bit setAt/ttl/readAt/cachedNow < 2^62"),
              H("ZZ_C03_Range", reach=["range-done"]),
              H("ZZ_C03_Reset", reach=["read-done"]),
              H("ZZ_C03_Loading", reach=["read-done"]),
              H("ZZ_C14_HybridLoadingExpiry", reach=["read"], bounds="hybrid loading cache: a value promoted from the secondary tier keeps its deadline"),
              H("ZZ_C15_ReloadAfterSecondaryExpiry", reach=["reloaded"], bounds="hybrid loading Get: an expired copy in the secondary tier is not served"),
              H("ZZ_C14_Expired", reach=["read"], bounds="hybrid Get of a key that lives only in the secondary tier: read time and the instant of the last cached-clock refresh symbolic")],
    "thorough": [H("ZZ_C03_AfterLoad", params={"BITS": 36}, reach=["read-after-load"], timeout_s=1500, bounds="uptime, TTL, downtime <= 2^36 ns symbolic"),
              H("ZZ_C14_HybridLoadingExpiry", reach=["read"]), H("ZZ_C03_Get", reach=["read-done", "hit"]), H("ZZ_C03_Range", reach=["range-done"]), H("ZZ_C03_Reset", reach=["read-done"]), H("ZZ_C03_Loading", reach=["read-done"]),
                 H("ZZ_C03_Get", reach=["read-done", "hit"], solver="cvc5", bounds="cross-check with cvc5"), H("ZZ_C03_Reset", reach=["read-done"], solver="cvc5", bounds="cross-check with cvc5"),
                 H("ZZ_C03_Loading", reach=["read-done"], solver="cvc5", bounds="cross-check with cvc5")],
}

_c04_step_quick = [{"P0": 5}, {"P0": 62, "P1": 7}, {"P0": 63, "P1": 7}, {"P0": 63, "P1": 63, "P2": 3}, {"P0": 63, "P1": 63, "P2": 31, "P3": 1}, {"P0": 63, "P1": 63, "P2": 31, "P3": 3}]
_c04_step_thorough = _c04_step_quick + [{"P0": 0}, {"P0": 1}, {"P0": 31}, {"P0": 63, "P1": 0}, {"P0": 63, "P1": 31}, {"P0": 63, "P1": 62},
                                        {"P0": 63, "P1": 63, "P2": 0}, {"P0": 63, "P1": 63, "P2": 15}, {"P0": 63, "P1": 63, "P2": 30},
                                        {"P0": 63, "P1": 63, "P2": 31, "P3": 0}, {"P0": 63, "P1": 63, "P2": 31, "P3": 2}]
PROPS["C04"] = {
    "title": "expired entries reclaimed within about one tick",
    "technique": "SSA symbolic execution of TimerWheel.schedule/advance/expire/deschedule + SMT (z3): inductive invariant over symbolic wheel time, deadline and advance target (64-bit)",
    "level_text": "Inductive bounded model checking of the real timer wheel: base (schedule establishes the invariant), step (any advance of at most G=2^31 ns from any invariant state keeps the invariant or removes the entry, never before its deadline, and always once the advance target is >= deadline + 2^30 ns), re-schedule, deschedule, three entries per slot, and jumps beyond a full rotation of every wheel. All times are 64-bit symbolic below 2^62; the solver enumerates the wheel slots. Inside these bounds the step covers schedule/advance sequences of any length; it is bounded model checking, not a proof.",
    "level_note": "Trusted: go/ssa, the executor's encoding, z3. Quick tier pins the slot position of the wheel time on each level to representative values (each level's wrap-around included); the thorough tier pins a wider family (first, middle and last slots of every level, 17 tuples); with every position symbolic the step lemma did not finish within 45 minutes on 16 cores and is therefore not registered. Advances between 2^31 ns and a full rotation of all wheels (2^51 ns) are outside the step lemma (covered only by the jump lemma at and above 2^51). Store-level scheduling calls are exercised by the C02/C05 programs.",
    "assumptions": ["invariant Inv(level, slot, N, E) as pre-state of the step (ZZ_C04_Base and ZZ_C04_Resched show schedule() establishes it)", "0 <= times < 2^62 ns"],
    "outside_bound": ["single advances longer than 2^31 ns and shorter than 2^51 ns", "more than 3 entries per slot", "deadlines at or behind the wheel time at schedule() (Store filters these for NEW events)"],
    "quick": [H("ZZ_C02_ArrivalWindow", params={"PRE": 1}, reach=["settled"], bounds="an entry whose deadline is extended while its insert event is expired on arrival is on the wheel afterwards"),
              H("ZZ_C04_Base", reach=["placed"], bounds="all N<E<2^62")] +
             [H("ZZ_C04_Step", params=p, reach=["advanced", "removed", "kept"], bounds="G=2^31, wheel-time slot positions pinned: %s" % p) for p in _c04_step_quick] +
             [H("ZZ_C04_Resched", reach=["rescheduled"]), H("ZZ_C04_Deschedule", reach=["descheduled"]),
              H("ZZ_C04_Slot3", params={"P0": 5}, reach=["advanced"]), H("ZZ_C04_Jump", reach=["jumped"], bounds="jump >= 2^51 ns, wheel time = 1234567 ticks + symbolic offset"),
              H("ZZ_C04_Store", reach=["two-ticks"], bounds="through the Store: TTL <= 2^29 ns and two tick instants symbolic"),
              H("ZZ_C04_LateUpdate", reach=["three-ticks"], bounds="TTL update processed 2^31 ns late"),
              H("ZZ_C04_StoreUpdate", reach=["ticked"], bounds="TTL changes through the Store: none/2^28/2^29 -> none/2^28/2^29")],
    "thorough": [H("ZZ_C04_Base", reach=["placed"]),
                ] + [H("ZZ_C04_Step", params=p, reach=["advanced", "removed", "kept"], bounds="G=2^31, wheel-time slot positions pinned: %s" % p) for p in _c04_step_thorough] + [
                 H("ZZ_C04_Resched", reach=["rescheduled"]), H("ZZ_C04_Deschedule", reach=["descheduled"]),
                 H("ZZ_C04_Slot3", params={"P0": 5}, reach=["advanced"]), H("ZZ_C04_Slot3", params={"P0": 63, "P1": 7}, reach=["advanced"]),
                 H("ZZ_C04_Jump", reach=["jumped"]), H("ZZ_C04_Jump", params={"K": 4194303}, reach=["jumped"]),
                 H("ZZ_C04_Store", reach=["two-ticks"]), H("ZZ_C04_LateUpdate", reach=["three-ticks"]), H("ZZ_C04_StoreUpdate", reach=["ticked"]),
                 H("ZZ_C04_Base", reach=["placed"], solver="cvc5", bounds="cross-check with cvc5"),
                 H("ZZ_C04_Step", params={"P0": 63, "P1": 7}, reach=["advanced", "removed", "kept"], solver="cvc5", bounds="cross-check with cvc5")],
}

def _c07(M, capbits, climbM):
    P = {"M": M, "CAPBITS": capbits}
    b = "<=%d entries per region, capacity <= 2^%d, weights 1..capacity symbolic" % (M, capbits)
    return [H("ZZ_C07_Base", reach=["constructed"], solver="cvc5", bounds="capacities 1,2,3,4,5,10,100,1000,2^20"),
            H("ZZ_C07_Admit", reach=["admit-done"], solver="cvc5", bounds="arbitrary 64-word sketch table"),
            H("ZZ_C07_Set", params=P, reach=["set-done"], solver="cvc5", bounds=b),
            H("ZZ_C07_Access", params=P, reach=["access-done"], solver="cvc5", bounds=b),
            H("ZZ_C07_Update", params=P, reach=["update-done"], solver="cvc5", bounds=b + ", new weight up to 2^60 (self-eviction above capacity)"),
            H("ZZ_C07_Remove", params=P, reach=["remove-done"], solver="cvc5", bounds=b),
            H("ZZ_C07_Climb", params={"M": climbM, "CAPBITS": capbits}, reach=["climb-done"], solver="cvc5", bounds="<=%d entries per region; float32 step/hr and sample counts symbolic; capacity <= 2^40" % climbM)] + _c07_shapes(capbits)

def _c07_shapes(capbits):
    out = []
    for (nw, npb, npt) in [(2, 0, 0), (0, 2, 0), (0, 0, 2), (3, 0, 0), (0, 3, 0), (2, 2, 0), (0, 2, 2), (2, 0, 2), (2, 1, 1)]:
        P = {"NW": nw, "NPB": npb, "NPT": npt, "CAPBITS": capbits}
        b = "pinned shape window/probation/protected = %d/%d/%d entries" % (nw, npb, npt)
        out.append(H("ZZ_C07_Set", params=P, reach=["set-done"], solver="cvc5", bounds=b))
        out.append(H("ZZ_C07_Update", params=P, reach=["update-done"], solver="cvc5", bounds=b))
    return out

PROPS["C07"] = {
    "title": "policy structure and bounds",
    "technique": "SSA symbolic execution of TinyLfu.Set/Access/UpdateCost/Remove/climb/resizeWindow + SMT (cvc5, BV+FP): one-step induction from arbitrary small valid policy states",
    "level_text": "Inductive bounded model checking of the real policy code: the pre-state is an arbitrary state satisfying the written-down representation invariant (region lists built with the real list code, symbolic weights, capacities, adaptive split, sample counters, float32 climber state); one real operation is executed and cvc5 decides, for all values, that the invariant, the capacity bound, capacity conservation, no unsigned wrap and exact eviction callbacks hold afterwards; an instruction budget turns non-terminating eviction into a violation. Shapes are bounded (entries per region), so this is bounded model checking, not a proof.",
    "level_note": "Trusted: go/ssa, executor encoding (BV + IEEE float32 via the FloatingPoint theory), cvc5. Cuts (recorded): admit() is an arbitrary boolean in the step lemmas (its direction is checked separately on the real sketch), CountMinSketch.Add is skipped (C17). Set/Access lemmas assume the adaptive-resize trigger is off; climb+resizeWindow have their own lemma from the same invariant, so their composition is covered.",
    "assumptions": ["invariant I (DESIGN.md §4 C07) as pre-state", "weights 1..capacity for resident entries", "admission outcome arbitrary (over-approximation)"],
    "outside_bound": ["shapes other than all shapes with <= M entries per region (quick 1, thorough 2) plus nine pinned shapes with up to 4 entries", "capacity above 2^60 (2^40 for the climber lemma)"],
    "quick": _c07(1, 60, 1),
    "thorough": _c07(2, 32, 1) + [H("ZZ_C07_Set", params={"M": 1, "CAPBITS": 16}, reach=["set-done"], bounds="cross-check with z3 (capacity <= 2^16)"),
                                  H("ZZ_C07_Update", params={"M": 1, "CAPBITS": 16}, reach=["update-done"], bounds="cross-check with z3 (capacity <= 2^16)")],
}

PROPS["C06"] = {
    "title": "successful Set visible, never lost without a reason",
    "technique": "SSA symbolic execution of bounded sequential histories of the real Store API (Set/Get/Delete/Wait/tick, loader) against a reference model + SMT (z3): costs, TTLs and clock advances symbolic",
    "level_text": "Bounded symbolic model checking: every history of N real API calls (Set on two keys, Get, Delete, clock advance, drain, tick) is executed on the real Store with its real maintenance goroutines; costs (including 0 = cost function and values above MaxSize), TTLs and clock advances are symbolic and z3 decides the reference model's predictions (Set result, immediate visibility, no loss and no eviction without capacity pressure, fresh entry after expiry, oversize never admitted) for all their values.",
    "level_note": "Trusted: go/ssa, executor encoding, z3, the clock/ticker stubs, concrete hash (one fixed mixing function; two keys), one read stripe. MaxSize 3, histories of N=3 calls; TTL <= 2^29 ns and advances <= 2^30 ns so that entries stay on the finest wheel (C04 covers placement). (The former known finding, a plain Set on an expired, unreclaimed key keeping the passed deadline, has been repaired in the repository.) Round 4 additions: the histories carry the notification/accounting/counter ledger; delayed update event of an expired and re-inserted key with the entry pool on; deadline extension racing the expiry-on-arrival of the insert event.",
    "assumptions": ["fresh cached clock before every read (staleness is C03)", "single client thread; maintenance runs at the client's blocking points"],
    "outside_bound": ["histories longer than N", "more than two keys", "MaxSize other than 3", "TTL > 2^29 ns"],
    "quick": [H("ZZ_C02_ArrivalWindow", params={"PRE": 1}, reach=["settled"], bounds="an accepted Set that extends the deadline while the insert event of the key is being expired on arrival is not lost"),
              H("ZZ_C06_PoolStaleUpdate", params={"POOL": 1, "PRE": 1}, reach=["drained", "collected-while-writer-delayed"], bounds="entry pool on, no capacity pressure: a delayed update event of an expired and re-inserted key evicts nothing (update cost 2..9 symbolic)"),
              H("ZZ_C02_PoolStaleUpdate", params={"PRE": 1, "POOL": 1}, reach=["drained"], bounds="entry pool on: same-key reuse guard"),
              H("ZZ_C06_History", params={"N": 3}, reach=["history-done", "set-true", "set-false"], bounds="N=3 calls, cap 3, doorkeeper off; with the notification / accounting / counter ledger"),
              H("ZZ_C06_History", params={"N": 3, "DOOR": 1}, reach=["history-done", "set-false"], bounds="N=3 calls, cap 3, doorkeeper on"),
              H("ZZ_C06_ExpiredUpdate", reach=["second-set"]),
              H("ZZ_C06_Doorkeeper", reach=["three-sets", "first-sight-rejected"], bounds="arbitrary doorkeeper reset counter and filter contents (inductive state), one key offered three times"),
              H("ZZ_C06_Loader", reach=["loaded"], bounds="loader cost 1..cap+5"),
              H("ZZ_C02_ExpiryWindow", params={"PRE": 1}, reach=["settled"], bounds="an accepted Set that extends the deadline of an expired, uncollected entry is not lost to the expiry of the old value (atomic granularity, preemptions 1)"),
              H("ZZ_C06_PoolRecycledDeadline", params={"POOL": 1}, reach=["recycling"], bounds="entry pool on: object of an expired TTL entry recycled for a key stored without TTL; TTL <= 2^29 and later advance <= 2^41 symbolic"),
              H("ZZ_C06_PoolRecycledDeadline", params={"POOL": 1, "CAP": 1}, reach=["recycling"], bounds="same with the object of an evicted TTL entry")],
    "thorough": [H("ZZ_C06_PoolStaleUpdate", params={"POOL": 1, "PRE": 2, "POOLMODE": 2}, reach=["drained", "collected-while-writer-delayed"]),
              H("ZZ_C06_PoolRecycledDeadline", params={"POOL": 1, "POOLMODE": 2}, reach=["recycling"]), H("ZZ_C06_PoolRecycledDeadline", params={"POOL": 1, "CAP": 1, "POOLMODE": 2}, reach=["recycling"]), H("ZZ_C02_ExpiryWindow", params={"PRE": 2}, reach=["settled"]),
                 H("ZZ_C06_History", params={"N": 3}, reach=["history-done", "set-true", "set-false"], bounds="N=3 calls, cap 3, doorkeeper off"),
                 H("ZZ_C06_History", params={"N": 3, "DOOR": 1}, reach=["history-done", "set-false"], bounds="N=3 calls, cap 3, doorkeeper on"),
                 H("ZZ_C06_ExpiredUpdate", reach=["second-set"]),
                 H("ZZ_C06_Doorkeeper", reach=["three-sets", "first-sight-rejected"]),
                 H("ZZ_C06_Loader", reach=["loaded"])],
}

_thr_note = "Trusted: go/ssa, executor (threads = controlled goroutines switched only at synchronisation operations: lock acquire, channel operation, select, WaitGroup.Wait, go, thread exit; exact blocking semantics; a state where no thread can run while the harness has not returned is reported as a deadlock), clock/ticker stubs, ideal reader/writer lock for RBMutex, concrete hash, one read stripe. "

PROPS["C20"] = {
    "title": "Wait is a write barrier and always returns",
    "technique": "SSA symbolic execution with controlled threads (schedule choices explored exhaustively within a preemption bound) of the real Store.Set/Delete/Wait and maintenance loop; deadlock detection; barrier oracle",
    "level_text": "Bounded model checking over schedules: W goroutines call the real Wait() concurrently after (or while) writes on a capacity-2 cache; every interleaving at synchronisation granularity within the preemption bound is executed on the real code; a state in which a Wait caller can never run again is a deadlock counterexample; at each return of Wait the accounting equalities and stored = resident + notified are asserted.",
    "level_note": _thr_note + "Bounds: <=3 waiters, <=3 writes, preemption bound 1 (thorough 2), write-batch size 128 and 2. Round 4 addition: SaveCache running concurrently with a writer that stores two keys and waits.",
    "assumptions": ["writes issued before the waiters start (ZZ_C20_Waiters) or by one concurrent writer (ZZ_C20_WaitWithWriter)"],
    "outside_bound": ["more than 3 concurrent waiters", "preemption bound above 1", "timer ticks during Wait"],
    "quick": [H("ZZ_C20_BarrierWithSave", params={"PRE": 1}, reach=["all-returned"], bounds="SaveCache concurrent with a writer that stores two keys and waits; preemptions 1"),
              H("ZZ_C20_Waiters", params={"WAITERS": 2}, reach=["all-waiters-returned"], bounds="2 waiters, 3 writes + 1 delete, preemptions 0"),
              H("ZZ_C20_Waiters", params={"WAITERS": 2, "WB": 2}, reach=["all-waiters-returned"], bounds="2 waiters, batch size 2 (markers across batch boundaries)"),
              H("ZZ_C20_Waiters", params={"WAITERS": 1, "PRE": 1}, reach=["all-waiters-returned"], bounds="1 waiter, preemptions 1 (a wake-up delivered before the batch is applied is observable)"),
              H("ZZ_C20_Waiters", params={"WAITERS": 2, "PRE": 1}, reach=["all-waiters-returned"], bounds="2 waiters, preemptions 1"),
              H("ZZ_C20_WaitWithWriter", params={"PRE": 1}, reach=["all-returned"], bounds="1 writer x3 + 2 waiters, preemptions 1"),
              H("ZZ_C20_TwoBarriers", params={"PRE": 2}, reach=["all-returned"], bounds="two goroutines each Set then Wait: each barrier covers the caller's own write; preemptions 2"),
              H("ZZ_C20_BarrierWithBusyQueue", params={"PRE": 2}, reach=["all-returned"], bounds="Set, Set, Delete, Wait on one goroutine while another keeps the queue busy (3 writes); preemptions 2")],
    "thorough": [H("ZZ_C20_BarrierWithSave", params={"PRE": 2}, reach=["all-returned"]),
              H("ZZ_C20_Waiters", params={"WAITERS": 2}, reach=["all-waiters-returned"]),
                 H("ZZ_C20_Waiters", params={"WAITERS": 2, "WB": 2}, reach=["all-waiters-returned"]),
                 H("ZZ_C20_Waiters", params={"WAITERS": 3, "WRITES": 2}, reach=["all-waiters-returned"], bounds="3 waiters"),
                 H("ZZ_C20_Waiters", params={"WAITERS": 2, "PRE": 2}, reach=["all-waiters-returned"], bounds="2 waiters, preemptions 2"),
                 H("ZZ_C20_Waiters", params={"WAITERS": 3, "WRITES": 2, "PRE": 1}, reach=["all-waiters-returned"], bounds="3 waiters, preemptions 1"),
                 H("ZZ_C20_WaitWithWriter", params={"PRE": 1}, reach=["all-returned"]),
                 H("ZZ_C20_BarrierWithBusyQueue", params={"PRE": 2, "BUSY": 4, "WB": 2}, reach=["all-returned"], bounds="busy writer x4, batch size 2, preemptions 2"),
                 H("ZZ_C20_TwoBarriers", params={"PRE": 2, "ROUNDS": 2, "WB": 2}, reach=["all-returned"], bounds="two rounds each, batch size 2, preemptions 2")],
}

def _c10(pre):
    out = []
    for q in (1, 64):
        out += [H("ZZ_C10_AfterClose", params={"WQ": q}, reach=["closed"], bounds="queue size %d" % q),
                H("ZZ_C10_CloseLeak", params={"WQ": q, "PRE": pre}, reach=["closed"], bounds="queue size %d, preemptions %d" % (q, pre)),
                H("ZZ_C10_RaceClose", params={"WQ": q, "PRE": pre}, reach=["writer-and-closer-returned"], bounds="1 writer x3 vs Close, queue size %d, preemptions %d" % (q, pre)),
                H("ZZ_C10_RaceWait", params={"WQ": q, "PRE": pre}, reach=["waiter-and-closer-returned"], bounds="Wait vs Close, queue size %d, preemptions %d" % (q, pre))]
    return out

PROPS["C10"] = {
    "title": "every call terminates around Close; Close is final and leak-free",
    "technique": "SSA symbolic execution with controlled threads of the real Store.Close racing Set/Wait, and of the calls after Close; deadlock (non-termination) detection and goroutine-exit check over all schedules within the bound",
    "level_text": "Bounded model checking over schedules of the plain and loading Store: Close racing a writer with more writes than the queue holds (queue size 1 and 64), Close racing Wait, and the sequence of calls after Close; every schedule at synchronisation granularity within the preemption bound is executed; a blocked-forever caller is a deadlock counterexample; after Close the harness asserts misses, no effect, ErrCacheClosed and that every goroutine the constructor started has terminated.",
    "level_note": _thr_note + "All four cache flavours are also driven through the public theine package API (Close wrappers differ per flavour). The deadlocks and leaks this check found on the pinned tree are repaired (known_findings.json, fixed entries). Round 5 addition: hybrid Get / loading Get after Close of a key whose copy lives in the secondary tier.",
    "assumptions": ["one writer goroutine, one closer; entry pool off"],
    "outside_bound": ["more than one writer", "preemption bound above 1 (RaceClose: 2 in thorough)"],
    "quick": _c10(0) + [H("ZZ_C10_HybridGetAfterClose", reach=["closed"], bounds="hybrid cache: Get / loading Get after Close of a key whose copy lives in the secondary tier"),
                        H("ZZ_C10_HybridClose", params={"PRE": 1}, reach=["closed"], bounds="store with secondary cache and one worker"),
                        H("ZZ_C10_PublicClose", pkg="theine", params={"FLAVOUR": 0}, reach=["closed"], bounds="public API: Cache"),
                        H("ZZ_C10_PublicClose", pkg="theine", params={"FLAVOUR": 1}, reach=["closed"], bounds="public API: LoadingCache"),
                        H("ZZ_C10_PublicClose", pkg="theine", params={"FLAVOUR": 2}, reach=["closed"], bounds="public API: HybridCache"),
                        H("ZZ_C10_PublicClose", pkg="theine", params={"FLAVOUR": 3}, reach=["closed"], bounds="public API: HybridLoadingCache"),
                        H("ZZ_C10_RaceClose", params={"WQ": 64, "PRE": 1}, reach=["writer-and-closer-returned"], bounds="1 writer x3 vs Close, queue size 64, preemptions 1"),
                        H("ZZ_C10_RaceClose", params={"WQ": 1, "PRE": 1}, reach=["writer-and-closer-returned"], bounds="1 writer x3 vs Close, queue size 1, preemptions 1")],
    "thorough": _c10(1) + [H("ZZ_C10_HybridGetAfterClose", reach=["closed"]), H("ZZ_C10_HybridClose", params={"PRE": 2}, reach=["closed"]),
                           H("ZZ_C10_PublicClose", pkg="theine", params={"FLAVOUR": 0}, reach=["closed"]), H("ZZ_C10_PublicClose", pkg="theine", params={"FLAVOUR": 1}, reach=["closed"]),
                           H("ZZ_C10_PublicClose", pkg="theine", params={"FLAVOUR": 2}, reach=["closed"]), H("ZZ_C10_PublicClose", pkg="theine", params={"FLAVOUR": 3}, reach=["closed"]),
                           H("ZZ_C10_RaceClose", params={"WQ": 64, "PRE": 2}, reach=["writer-and-closer-returned"], bounds="preemptions 2")],
}

PROPS["C01"] = {
    "title": "linearizable map",
    "technique": "SSA symbolic execution with controlled threads of the real Store API (Set/Get/Delete/Range, loading Get); exhaustive schedule exploration within a preemption bound; linearizability oracle (search over linearizations) in the harness; RBMutex protocol at atomic granularity",
    "level_text": "Bounded model checking over schedules and operation choices: two clients each issue OPS real calls chosen from Set k1 / Set k2 / Get k1 / Delete k1 / Range (/ loading Get) on a capacity-1 cache, every write with a distinct value tag; every interleaving at synchronisation granularity within the preemption bound runs on the real code with the real maintenance goroutine; the harness then searches for a linearization (map that may drop keys) explaining every hit. The reader-biased lock itself is checked separately at the granularity of its atomic operations (1 writer, 2 readers, mutual exclusion).",
    "level_note": _thr_note + "Store-level runs use the ideal reader/writer lock in place of RBMutex (whose own protocol is the second harness). Bounds: 2 clients x 2 ops, preemption bound 0 (quick) / 1 (thorough); plain, loading, entry-pool and doorkeeper configurations. Round 4/5 additions: a three-client program on the loading cache (load, read-then-delete, load again after the Delete returned; preemption bound 1, thorough 2), which found and now guards the stale-join repair ba0f424.",
    "assumptions": ["switching only at synchronisation operations is sound for data-race-free code (race freedom under the same bounds is C19's subject)"],
    "outside_bound": ["more than 2 clients or 2 operations each", "preemption bound above 1 (RBMutex harness: 2)", "timer ticks during the history"],
    "quick": [H("ZZ_C01_LoadDeleteLoad", params={"PRE": 1}, reach=["history-complete", "deleted-after-seeing-the-loaded-value"], bounds="three clients on a loading cache: load, read-then-delete, load again after the Delete returned; preemptions 1"),
              H("ZZ_C01_Linearizable", params={"PRE": 0}, reach=["history-complete"], bounds="2x2 ops, cap 1, preemptions 0"),
              H("ZZ_C01_Linearizable", params={"PRE": 0, "POOL": 1}, reach=["history-complete"], bounds="entry pool on"),
              H("ZZ_C01_Linearizable", params={"PRE": 0, "POOL": 1, "PRELUDE": 1}, reach=["history-complete"], bounds="entry pool on and holding a recycled entry"),
              H("ZZ_C02_PoolStaleUpdate", params={"PRE": 1, "POOL": 1}, reach=["drained"], bounds="entry pool on: same-key reuse guard (a delayed update event must not reach the new incarnation)"),
              H("ZZ_C01_Linearizable", params={"PRE": 0, "LOADING": 1}, reach=["history-complete"], bounds="loading cache"),
              H("ZZ_C01_Linearizable", params={"PRE": 0, "DOOR": 1}, reach=["history-complete"], bounds="doorkeeper on"),
              H("ZZ_C13_LoadingWithWriter", params={"PRE": 1}, reach=["both-finished"], bounds="loading Get vs Set/Delete of the same key: load-and-store atomic with respect to writers"),
              H("ZZ_C05_DeleteVsReset", params={"PRE": 1}, reach=["drained"], bounds="Delete racing a Set of the same key: the old incarnation's eviction must not remove the new one"),
              H("ZZ_C01_RBMutex", params={"READERS": 2, "PRE": 2}, reach=["all-done"], bounds="1 writer, 2 readers, atomic granularity, preemptions 2")],
    "thorough": [H("ZZ_C01_LoadDeleteLoad", params={"PRE": 2}, reach=["history-complete", "deleted-after-seeing-the-loaded-value"], bounds="preemptions 2"),
              H("ZZ_C01_Linearizable", params={"PRE": 1}, reach=["history-complete"], bounds="2x2 ops, cap 1, preemptions 1"),
                 H("ZZ_C01_Linearizable", params={"PRE": 0, "POOL": 1, "POOLMODE": 2}, reach=["history-complete"], bounds="entry pool on, adversarial reuse"),
                 H("ZZ_C01_Linearizable", params={"PRE": 1, "POOL": 1, "POOLMODE": 2, "PRELUDE": 1}, reach=["history-complete"], bounds="entry pool holding a recycled entry, adversarial reuse, preemptions 1"),
                 H("ZZ_C01_Linearizable", params={"PRE": 0, "LOADING": 1}, reach=["history-complete"]),
                 H("ZZ_C01_Linearizable", params={"PRE": 0, "DOOR": 1}, reach=["history-complete"]),
                 H("ZZ_C01_Linearizable", params={"PRE": 0, "CAP": 2}, reach=["history-complete"]),
                 H("ZZ_C01_RBMutex", params={"READERS": 2, "PRE": 3}, reach=["all-done"])],
}

PROPS["C02"] = {
    "title": "resident cost within MaxSize after drain; nothing untracked",
    "technique": "SSA symbolic execution with controlled threads of two-client programs on the real Store (symbolic costs), then Wait and accounting invariants decided by z3; sync/atomic operations as scheduling points for the expiry window",
    "level_text": "Bounded model checking: two clients x OPS operations (Set k1 / Set k2 with symbolic costs 1..MaxSize, Delete, Get) in every interleaving within the preemption bound; after Wait the harness asserts, for all cost values, resident cost = policy total = sum of region sizes <= MaxSize, every resident entry on exactly one region list with policy weight = weight and not flagged removed, and Len/EstimatedSize views. A second program places a TTL extension at every atomic step of the expiry path (no source hook needed: the executor schedules at sync/atomic operations).",
    "level_note": _thr_note + "Entry pool off (as the property states) except in ZZ_C02_PoolStaleUpdate. The in-flight bound on unaccounted entries is not asserted as a running monitor; the mechanism behind it (a writer waits on the full queue rather than skipping the accounting) is exercised with a one-slot queue, where a skipped event shows up as an untracked resident entry after the drain. Round 4/5 additions: insert event expired on arrival while a second writer extends the deadline (found the untracked-entry defect repaired in f3993d6), delayed update event vs expiry and re-insertion with the entry pool on, and the ledger of the symbolic sequential histories (ZZ_C06_History, N=2 quick / 3 thorough).",
    "assumptions": ["MaxSize 2, two keys"],
    "outside_bound": ["bound on unaccounted entries while writes are in flight", "more than 2 clients / 2 ops", "preemption bound above 1"],
    "quick": [H("ZZ_C06_History", params={"N": 2}, reach=["history-done"], bounds="N=2 calls: symbolic sequential histories (Set k1/k2 with symbolic cost and TTL, Get, Delete, clock advance, drain, tick) with the ledger: resident xor notified exactly once, REMOVED only if deleted, overwritten values never notified, accounting and wheel membership after drain, hits+misses = number of Gets"),
              H("ZZ_C02_ArrivalWindow", params={"PRE": 1}, reach=["settled"], bounds="insert event processed after its deadline while a second writer extends the deadline (cost 1..3 symbolic), preemptions 1"),
              H("ZZ_C06_PoolStaleUpdate", params={"POOL": 1, "PRE": 1}, reach=["drained", "collected-while-writer-delayed"], bounds="entry pool on: delayed update event vs expiry and re-insertion of the key"),
              H("ZZ_C02_Program", params={"PRE": 0}, reach=["drained"], bounds="2 clients x 2 ops, cap 2, preemptions 0, costs symbolic"),
              H("ZZ_C02_Program", params={"PRE": 0, "WQ": 1, "OPS": 1}, reach=["drained"], bounds="one op per client with a write queue of one slot: writers block on the full queue (a writer that skipped the accounting instead would leave an untracked entry)"),
              H("ZZ_C02_ExpiryWindow", params={"PRE": 1}, reach=["settled"], bounds="TTL extension vs expiry path at atomic granularity, preemptions 1"),
              H("ZZ_C04_LateUpdate", reach=["three-ticks"], bounds="cost and TTL update processed after the new deadline: accounting stays exact"),
              H("ZZ_C02_TwoWriters", params={"PRE": 1}, reach=["drained"], bounds="two writers x 2 Sets of one key, symbolic costs, preemptions 1 (an update event may overtake the insert event)"),
              H("ZZ_C02_PoolStaleUpdate", params={"PRE": 1, "POOL": 1}, reach=["drained"], bounds="entry pool on: a delayed update event of a recycled entry, preemptions 1"),
              H("ZZ_C02_WindowCostUpdate", reach=["drained"], bounds="MaxSize 200: cost of a window entry raised (1..10 symbolic) while the main region holds 190..199")],
    "thorough": [H("ZZ_C06_History", params={"N": 3}, reach=["history-done"]),
              H("ZZ_C02_ArrivalWindow", params={"PRE": 2}, reach=["settled"]),
              H("ZZ_C06_PoolStaleUpdate", params={"POOL": 1, "PRE": 2, "POOLMODE": 2}, reach=["drained", "collected-while-writer-delayed"]),
              H("ZZ_C02_WindowCostUpdate", reach=["drained"]),
                 H("ZZ_C02_PoolStaleUpdate", params={"PRE": 2, "POOL": 1, "POOLMODE": 2}, reach=["drained"], bounds="entry pool on, adversarial reuse, preemptions 2"),
                 H("ZZ_C02_Program", params={"PRE": 1}, reach=["drained"], bounds="2 clients x 2 ops, cap 2, preemptions 1"),
                 H("ZZ_C02_Program", params={"PRE": 0, "WQ": 1}, reach=["drained"], bounds="2 clients x 2 ops, one-slot write queue"),
                 H("ZZ_C02_Program", params={"PRE": 0, "CAP": 3}, reach=["drained"]),
                 H("ZZ_C02_ExpiryWindow", params={"PRE": 2}, reach=["settled"])],
}

PROPS["C05"] = {
    "title": "exactly one removal notification, true reason",
    "technique": "SSA symbolic execution with controlled threads: Delete, capacity eviction and expiry of the same entry overlapped in every schedule within the preemption bound; notification ledger oracle",
    "level_text": "Bounded model checking over schedules of the real Store with a removal listener: Delete vs eviction, Delete vs expiry, eviction vs expiry (with a value update before departure), rejected Sets; after drain each departed entry must have exactly one notification with its key, the value held at departure and a reason consistent with how it left, and stored = resident + notified.",
    "level_note": _thr_note + "Scenario programs (not arbitrary histories); entry pool off and on. Round 4 addition: the ledger of the symbolic sequential histories (ZZ_C06_History N=3: Set with symbolic cost/TTL, Get, Delete, clock advance, drain, tick): every accepted value resident xor notified exactly once, REMOVED only if deleted, overwritten values never notified.",
    "assumptions": ["scripted overlap scenarios on capacity 1 and 10"],
    "outside_bound": ["arbitrary operation histories", "preemption bound above 1 (thorough 2)"],
    "quick": [H("ZZ_C06_History", params={"N": 3}, reach=["history-done"], bounds="N=3 calls: symbolic sequential histories (Set k1/k2 with symbolic cost and TTL, Get, Delete, clock advance, drain, tick) with the ledger: resident xor notified exactly once, REMOVED only if deleted, overwritten values never notified, accounting and wheel membership after drain, hits+misses = number of Gets"),
              H("ZZ_C05_DeleteVsEvict", params={"PRE": 1}, reach=["drained"]), H("ZZ_C05_DeleteVsEvict", params={"PRE": 1, "POOL": 1}, reach=["drained"]),
              H("ZZ_C05_DeleteVsExpire", params={"PRE": 1}, reach=["drained"]), H("ZZ_C05_EvictVsExpire", params={"PRE": 1}, reach=["drained"]),
              H("ZZ_C05_ExpiredOnArrival", reach=["drained", "expired-on-arrival"], bounds="TTL, processing time and cached-clock reading symbolic"),
              H("ZZ_C05_DeleteVsReset", params={"PRE": 1}, reach=["drained"], bounds="Delete racing a Set of the same key (new incarnation), capacity 1"),
              H("ZZ_C05_UpdateVsEvict", params={"PRE": 1}, reach=["drained"], bounds="overwrite of a key racing the eviction of its entry: the listener gets the value that left"),
              H("ZZ_C02_ExpiryWindow", params={"PRE": 1}, reach=["settled"], bounds="deadline extension racing the expiry of the entry, atomic granularity"),
              H("ZZ_C05_Rejected", reach=["drained", "doorkeeper-rejected"])],
    "thorough": [H("ZZ_C06_History", params={"N": 3}, reach=["history-done"]), H("ZZ_C06_History", params={"N": 3, "DOOR": 1}, reach=["history-done"]),
              H("ZZ_C05_UpdateVsEvict", params={"PRE": 2}, reach=["drained"]), H("ZZ_C02_ExpiryWindow", params={"PRE": 2}, reach=["settled"]),
                 H("ZZ_C05_DeleteVsReset", params={"PRE": 2}, reach=["drained"]), H("ZZ_C05_ExpiredOnArrival", reach=["drained", "expired-on-arrival"]), H("ZZ_C05_DeleteVsEvict", params={"PRE": 2}, reach=["drained"]), H("ZZ_C05_DeleteVsEvict", params={"PRE": 2, "POOL": 1}, reach=["drained"]),
                 H("ZZ_C05_DeleteVsExpire", params={"PRE": 2}, reach=["drained"]), H("ZZ_C05_EvictVsExpire", params={"PRE": 2}, reach=["drained"]),
                 H("ZZ_C05_Rejected", reach=["drained", "doorkeeper-rejected"])],
}

PROPS["C08"] = {
    "title": "lossy read buffer neither invents nor wedges",
    "technique": "SSA symbolic execution of Buffer.Add/Free: call-granularity late hand-back sequences and two readers interleaved at the granularity of individual sync/atomic operations (all schedules within the preemption bound); Store-level stall behind the policy lock",
    "level_text": "Bounded model checking of the real ring buffer: (a) every number 0..17 of Adds while the batch token is out, then a late Free, then 33 further Adds must deliver a batch; (b) two readers racing on a stripe holding 14 or 15 items, and a late Free racing a reader, with a scheduling point before every atomic operation; every delivered item was added and is delivered once; afterwards the stripe still delivers; (c) at Store level a drain stalled behind the policy lock, then hits must reach the policy again.",
    "level_note": _thr_note + "One stripe; 2 threads at atomic granularity, <=3 Adds each, preemption bound 2 (thorough 3). Round 4 addition: Store-level delivered-once (per-key read credit in the sketch never exceeds the reads issued) with a batch held behind the policy lock.",
    "assumptions": ["Clear() (test-only) not exercised"],
    "outside_bound": ["more than 2 concurrent readers at atomic granularity", "preemption bound above 3"],
    "quick": [H("ZZ_C08_StoreOnce", reach=["both-readers-done"], bounds="Store level, four keys: a batch held behind the policy lock while a second reader fills the same stripe; per-key read credit never exceeds the reads"),
              H("ZZ_C08_LateFree", reach=["late-free-done"]), H("ZZ_C08_Atomic", params={"N0": 14, "ADDS": 1, "PRE": 2}, reach=["burst-over"]),
              H("ZZ_C08_Atomic", params={"N0": 15, "ADDS": 1, "PRE": 2}, reach=["burst-over"]),
              H("ZZ_C08_AtomicLate", params={"J": 15, "ADDS": 2, "PRE": 2}, reach=["burst-over"]),
              H("ZZ_C08_StaleView", params={"N0": 0, "YADDS": 20, "PRE": 1}, reach=["burst-over"], bounds="one reader preempted anywhere inside Add while another performs 20 Adds"),
              H("ZZ_C08_StaleView", params={"N0": 7, "YADDS": 30, "PRE": 1}, reach=["burst-over"]),
              H("ZZ_C08_Store", reach=["stall-over"])],
    "thorough": [H("ZZ_C08_StoreOnce", reach=["both-readers-done"]),
              H("ZZ_C08_StaleView", params={"N0": 0, "YADDS": 20, "PRE": 1}, reach=["burst-over"]), H("ZZ_C08_StaleView", params={"N0": 7, "YADDS": 30, "PRE": 1}, reach=["burst-over"]),
                 H("ZZ_C08_StaleView", params={"N0": 0, "YADDS": 18, "PRE": 2}, reach=["burst-over"]), H("ZZ_C08_LateFree", reach=["late-free-done"]), H("ZZ_C08_Atomic", params={"N0": 14, "ADDS": 2, "PRE": 3}, reach=["burst-over"]),
                 H("ZZ_C08_Atomic", params={"N0": 15, "ADDS": 2, "PRE": 2}, reach=["burst-over"]),
                 H("ZZ_C08_AtomicLate", params={"J": 15, "ADDS": 2, "PRE": 3}, reach=["burst-over"]),
                 H("ZZ_C08_AtomicLate", params={"J": 14, "ADDS": 3, "PRE": 2}, reach=["burst-over"]),
                 H("ZZ_C08_AtomicLate", params={"J": 16, "ADDS": 1, "PRE": 3}, reach=["burst-over"]),
                 H("ZZ_C08_Store", reach=["stall-over"])],
}

PROPS["C13"] = {
    "title": "loading cache: one load in flight, shared result, failures not cached",
    "technique": "SSA symbolic execution with controlled threads, defer/panic/recover/Goexit semantics, of the real singleflight Group.Do/doCall and LoadingStore.Get with loaders that succeed, fail, panic or call runtime.Goexit; all schedules within the preemption bound",
    "level_text": "Bounded model checking over schedules: N callers of one key run the real Group.Do (and the real LoadingStore.Get on top of it) with a loader that yields and then returns a value, returns an error, panics or calls Goexit; asserted: never two loader invocations running, every caller receives an invocation's value / the error / the panic / the Goexit, nothing stays in flight, the shard is usable, a failure is not cached (the next Get loads again), a success is stored with the loader's cost and TTL exactly as Set would and is accounted by the policy.",
    "level_note": _thr_note + "2 callers (thorough 3), preemption bound 1; call-record pool LIFO (thorough: adversarial choice). Set/Delete interleaved with the load of the same key has its own program.",
    "assumptions": ["loader yields once (slow loader) and is otherwise atomic"],
    "outside_bound": ["more than 3 callers", "nested loads"],
    "quick": [H("ZZ_C01_LoadDeleteLoad", params={"PRE": 1}, reach=["history-complete"], bounds="a call that starts after the loaded value was deleted does not share the finished load"),
              H("ZZ_C13_Group", params={"CALLERS": 2, "PRE": 1}, reach=["all-callers-finished"]),
              H("ZZ_C13_Group", params={"CALLERS": 2, "PRE": 1, "OTHER": 1}, reach=["all-callers-finished"], bounds="plus a caller of another key sharing the record pool, happens-before monitor on"),
              H("ZZ_C13_NotCached", params={"PRE": 1}, reach=["all-callers-finished"], bounds="2 callers x 2 consecutive calls of one key, loader ok/failing, preemptions 1"),
              H("ZZ_C13_Loading", params={"CALLERS": 2, "PRE": 1}, reach=["all-callers-finished"]),
              H("ZZ_C13_LoadingWithWriter", params={"PRE": 1}, reach=["both-finished"], bounds="one loading Get and one Set/Delete of the same key, loader ok/failing, preemptions 1")],
    "thorough": [H("ZZ_C13_Group", params={"CALLERS": 3, "PRE": 1, "POOLMODE": 2}, reach=["all-callers-finished"]), H("ZZ_C13_NotCached", params={"PRE": 2}, reach=["all-callers-finished"]), H("ZZ_C13_NotCached", params={"PRE": 1, "CALLERS": 3}, reach=["all-callers-finished"]), H("ZZ_C13_Group", params={"CALLERS": 2, "PRE": 1, "OTHER": 1, "POOLMODE": 2}, reach=["all-callers-finished"]), H("ZZ_C13_Group", params={"CALLERS": 2, "PRE": 2}, reach=["all-callers-finished"]),
                 H("ZZ_C13_Loading", params={"CALLERS": 3, "PRE": 1}, reach=["all-callers-finished"]),
                 H("ZZ_C13_LoadingWithWriter", params={"PRE": 2}, reach=["both-finished"])],
}

PROPS["C16"] = {
    "title": "counters and size views",
    "technique": "SSA symbolic execution: path-wise counting on the real Get / loading Get with symbolic clocks (z3), striped counter at atomic granularity, post-drain views",
    "level_text": "Bounded model checking: (a) for every set time, TTL, read time and cached-clock reading, one real Get or loading Get moves exactly one of hits/misses and hits exactly when a cached value was returned (so the totals over any finished history follow by induction over calls); (b) two concurrent UnsignedCounter.Add calls at atomic granularity never lose an increment; (c) after drain Len, EstimatedSize and Range agree with the resident set, Range visits every live key once with its current value, skips expired ones and stops when told.",
    "level_note": _thr_note + "Counts are asserted per call (single client) plus the counter's atomicity; concurrent whole-history counting follows from those two, it is not explored as one program. Round 4/5 additions: Range at an arbitrary instant without a refresh of the cached clock, counting on two concurrent loading Gets that share a load (value, error, panic, Goexit), the counter clauses of the symbolic sequential histories.",
    "assumptions": ["hybrid Get is outside the property (stats are in-memory only)"],
    "outside_bound": ["more than 2 concurrent counter updates"],
    "quick": [H("ZZ_C13_Loading", params={"CALLERS": 2, "PRE": 1}, reach=["all-callers-finished"], bounds="two concurrent loading Gets of one absent key (shared load; value, error, panic or Goexit): every call counted exactly once"),
              H("ZZ_C06_History", params={"N": 2}, reach=["history-done"], bounds="N=2 calls: symbolic sequential histories (Set k1/k2 with symbolic cost and TTL, Get, Delete, clock advance, drain, tick) with the ledger: resident xor notified exactly once, REMOVED only if deleted, overwritten values never notified, accounting and wheel membership after drain, hits+misses = number of Gets"),
              H("ZZ_C03_Range", reach=["range-done"], bounds="Range at an arbitrary instant (set time, TTL, read time symbolic, cached clock not refreshed): visits exactly the unexpired keys, once"),
              H("ZZ_C16_GetCounts", reach=["get-done"]), H("ZZ_C16_GetCounts", params={"LOADING": 1}, reach=["get-done"]),
              H("ZZ_C16_Counter", params={"PRE": 2}, reach=["adds-done"]), H("ZZ_C16_Views", reach=["views-done"]),
              H("ZZ_C04_LateUpdate", reach=["three-ticks"], bounds="EstimatedSize after a cost and TTL update that is applied after its deadline")],
    "thorough": [H("ZZ_C13_Loading", params={"CALLERS": 3, "PRE": 1}, reach=["all-callers-finished"]),
              H("ZZ_C06_History", params={"N": 3}, reach=["history-done"]),
              H("ZZ_C03_Range", reach=["range-done"]),
              H("ZZ_C16_GetCounts", reach=["get-done"]), H("ZZ_C16_GetCounts", params={"LOADING": 1}, reach=["get-done"]),
                 H("ZZ_C16_Counter", params={"PRE": 4, "POOLMODE": 2}, reach=["adds-done"]), H("ZZ_C16_Views", params={"N": 5}, reach=["views-done"])],
}

_gob_note = "encoding/gob and bytes.Buffer/Reader are replaced by a faithful value channel (Encode appends a snapshot of the value, Decode delivers the next one or io.EOF, a wire value that does not fit the target is a decode error; Buffer.Len() may report 'block full' at any point in the SPLIT runs): byte layout, type descriptors and byte counts are outside the model. xxh3.Hash of a payload is an uninterpreted function of the payload's identity. "

PROPS["C11"] = {
    "title": "SaveCache/LoadCache round trip (logic, not gob bytes)",
    "technique": "SSA symbolic execution of the real Store.Persist / Store.Recover / List.Persist / DataBlock with encoding/gob stubbed as a value channel; source cache built through the real API; elapsed time and costs symbolic (z3)",
    "level_text": "Bounded symbolic model checking of the repository's own save/restore logic: a cache filled through the real API (entries with and without TTL, hits that move entries between regions) is saved to a ghost stream and loaded into a fresh cache after a symbolic clock advance; for all advances (and symbolic costs in the COSTS runs) z3 decides that every unexpired entry is restored with the same key, value, cost and deadline, region, relative order and at least the saved frequency, that expired ones are dropped, that the new cache satisfies the accounting and wheel-membership invariants and adopts the saved clock origin; block splitting at arbitrary points is explored. Claimed in part: the gob byte stream is not modelled.",
    "level_note": "Trusted: go/ssa, executor encoding, z3. " + _gob_note + "Source caches: 4-16 entries, unit or symbolic costs 1..3, optionally after two sample periods of the real hill climber or with the protected region above its size. Round 4/5 additions: regions split over blocks at arbitrary points combined with symbolic costs and a smaller target; MaxSize 1000 with the window shrunk by the climber's first move (capacities set by hand to that reachable split) and four cost-weighted entries filling the enlarged protected region.",
    "assumptions": ["gob round-trips the values it is given (its contract, and the README's precondition on key/value types)", "N=4 entries, capacity 10"],
    "outside_bound": ["gob byte layout and 4 MiB thresholds as byte counts", "more than 4 entries", "arbitrary adaptive-split states (only those reached by the fill script)"],
    "quick": [H("ZZ_C11_RoundTrip", params={"CAP": 1000, "N": 4, "COSTS": 1, "MAXCOST": 300, "SHRUNK": 9, "HITALL": 1}, reach=["loaded", "window-shrunk"], bounds="MaxSize 1000 after the climber shrank the window from 10 to 1: four entries with symbolic costs 1..300 that fill the enlarged protected region"),
              H("ZZ_C03_AfterLoad", params={"BITS": 33, "UFIX": 1}, reach=["read-after-load"], bounds="restored deadlines are judged against the adopted clock origin at once"),
              H("ZZ_C11_RoundTrip", params={"SPLIT": 1, "COSTS": 1, "CAP2": 4}, reach=["loaded"], bounds="smaller target, symbolic costs, regions split over several blocks at arbitrary points"),
              H("ZZ_C11_RoundTrip", reach=["loaded"], bounds="4 entries, cap 10, same size, advance <= 2^31 ns symbolic"),
              H("ZZ_C11_RoundTrip", params={"COSTS": 1}, reach=["loaded"], bounds="symbolic costs 1..3"),
              H("ZZ_C11_RoundTrip", params={"CAP2": 2}, reach=["loaded"], bounds="smaller target (unit costs)"),
              H("ZZ_C11_RoundTrip", params={"N": 6, "CAP2": 4}, reach=["loaded"], bounds="6 entries, smaller target keeps part of a region (unit costs)"),
              H("ZZ_C11_RoundTrip", params={"COSTS": 1, "CAP2": 4}, reach=["loaded"], bounds="smaller target, symbolic costs"),
              H("ZZ_C11_RoundTrip", params={"ADAPT": 1, "CAP": 16, "N": 16}, reach=["loaded", "window-adapted"], bounds="source cache whose window the hill climber has resized (two sample periods through the real policy), same size"),
              H("ZZ_C11_RoundTrip", params={"HITALL": 1, "N": 10}, reach=["loaded", "protected-above-its-size"], bounds="source cache saved with the protected region above its size"),
              H("ZZ_C11_RoundTrip", params={"HOT": 50, "N": 200, "CAP": 300}, reach=["loaded", "hot-survivors"], bounds="50 saturated survivors of a 200-entry cache: the saved frequencies exceed one sample period of the new sketch")],
    "thorough": [H("ZZ_C11_RoundTrip", reach=["loaded"]), H("ZZ_C11_RoundTrip", params={"COSTS": 1}, reach=["loaded"]),
                 H("ZZ_C11_RoundTrip", params={"SPLIT": 1}, reach=["loaded"], bounds="block splits at arbitrary points"),
                 H("ZZ_C11_RoundTrip", params={"CAP2": 2}, reach=["loaded"]), H("ZZ_C11_RoundTrip", params={"COSTS": 1, "CAP2": 4}, reach=["loaded"]),
                 H("ZZ_C11_RoundTrip", params={"N": 6, "CAP2": 4}, reach=["loaded"], bounds="6 entries, smaller target keeps part of a region"),
                 H("ZZ_C11_RoundTrip", params={"N": 8, "CAP": 20, "CAP2": 5}, reach=["loaded"], bounds="8 entries, smaller target"),
                 H("ZZ_C11_RoundTrip", params={"N": 6, "CAP": 4, "CAP2": 4}, reach=["loaded"], bounds="source cache under eviction pressure"),
                 H("ZZ_C11_RoundTrip", params={"ADAPT": 1, "CAP": 16, "N": 16}, reach=["loaded", "window-adapted"]),
                 H("ZZ_C11_RoundTrip", params={"ADAPT": 1, "CAP": 32, "N": 32, "CAP2": 16}, reach=["loaded", "window-adapted"], bounds="adapted source, smaller target"),
                 H("ZZ_C11_RoundTrip", params={"HITALL": 1, "N": 10}, reach=["loaded", "protected-above-its-size"]),
                 H("ZZ_C11_RoundTrip", params={"COSTS": 1, "N": 5, "CAP2": 6}, reach=["loaded"], bounds="5 entries, symbolic costs, smaller target")],
}

PROPS["C12"] = {
    "title": "damaged or truncated stream (block-level faults)",
    "technique": "SSA symbolic execution of the real Store.Recover on a ghost stream passed through an enumerated block-level fault schedule (truncate, drop, duplicate, swap, retag, checksum damage, payload swap, payload damage), version mismatch",
    "level_text": "Bounded model checking over fault schedules at block granularity: the stream produced by the real Persist is damaged by every single fault (thorough: every pair) of the listed kinds at every block position and loaded by the real Recover; asserted: a truncated stream is an error, every loaded entry equals a saved entry (key, value, deadline not later), no Go panic, and a stream saved under another version yields VersionMismatch with nothing loaded. Claimed in part: bit/byte-level damage inside gob framing is outside the model.",
    "level_note": "Trusted: go/ssa, executor encoding, z3. " + _gob_note + "A damaged payload is modelled as 'decoder fails at the damaged item and the payload's checksum changes'; checksum collisions are excluded by construction. Round 5 addition: faults on streams loaded into a cache smaller than the saved one.",
    "assumptions": ["no xxh3 collision between a payload and its damaged version"],
    "outside_bound": ["bit/byte-level corruption inside gob messages and type descriptors", "more than 2 simultaneous faults"],
    "quick": [H("ZZ_C12_Faults", params={"FAULTS": 1, "CAP2": 2, "N": 6}, reach=["recover-returned"], bounds="one block-level fault, loading cache smaller than the saved one (regions fill up before the stream ends)"),
              H("ZZ_C12_Faults", params={"FAULTS": 1}, reach=["recover-returned"], bounds="every single block-level fault"),
              H("ZZ_C12_Faults", params={"FAULTS": 1, "VERSION": 1}, reach=["recover-returned"], bounds="version mismatch, with a fault")],
    "thorough": [H("ZZ_C12_Faults", params={"FAULTS": 2, "CAP2": 2, "N": 6}, reach=["recover-returned"]), H("ZZ_C12_Faults", params={"FAULTS": 1, "CAP2": 4, "N": 8, "CAP": 20}, reach=["recover-returned"]),
              H("ZZ_C12_Faults", params={"FAULTS": 1}, reach=["recover-returned"]),
                 H("ZZ_C12_Faults", params={"FAULTS": 1, "VERSION": 1}, reach=["recover-returned"]),
                 H("ZZ_C12_Faults", params={"FAULTS": 2}, reach=["recover-returned"], bounds="every pair of faults")],
}

PROPS["C14"] = {
    "title": "hybrid cache never serves stale, deleted or expired values",
    "technique": "SSA symbolic execution with controlled threads of the real hybrid entry points (GetWithSecodary, Set, DeleteWithSecondary) with the real processSecondary worker and a nondeterministic secondary store; sequential histories against a model, Delete-vs-demotion race, symbolic read time",
    "level_text": "Bounded model checking: (a) every history of N calls (Set k1 with/without TTL, Set k2 on a one-slot memory tier so that demotion and promotion happen, hybrid Get, hybrid Delete, clock advance) with workers keeping up, checked against a model: a hit from either tier carries the last completed Set's value, never after a completed Delete or past the deadline; (b) Delete racing the demotion of the same entry in all schedules within the preemption bound; (c) promote-update-evict-read; (d) expired entry in the secondary tier with symbolic read time.",
    "level_note": _thr_note + "Secondary store = harness map with a yield in every method (slow store); admission probability 1, 0 and symbolic; one worker (thorough: two); a full hand-off queue is modelled by letting the select in removeEntry take its default branch nondeterministically. Round 4/5 additions: concurrent hybrid histories under C01's linearizability oracle from four start states (quick: the operation pair that exposed the worker-gap defect; thorough: the full menu and failing writes), failed demotion writes, save/load of a hybrid cache over a surviving secondary tier.",
    "assumptions": ["workers keep up between the calls of the sequential histories (the race program does not assume it)"],
    "outside_bound": ["more than two workers", "histories longer than N (quick 4, thorough 5)"],
    "quick": [H("ZZ_C14_SeqX", params={"N": 4, "FAIL": 1}, reach=["sequence-done", "hit"], bounds="sequential hybrid histories of 4 calls with secondary writes that fail by choice: a hit is the last completed Set, never deleted or expired"),
              H("ZZ_C14_FailedDemotion", params={"PROMOTE": 0}, reach=["evicted"], bounds="newer value evicted, its secondary write fails or succeeds (every call, by choice)"),
              H("ZZ_C14_FailedDemotion", params={"PROMOTE": 1}, reach=["evicted"]),
              H("ZZ_C14_SaveLoadHybrid", params={"PROMOTE": 0}, reach=["loaded"], bounds="save/load round trip of a hybrid cache over a secondary tier that holds an older copy"),
              H("ZZ_C14_SaveLoadHybrid", params={"PROMOTE": 1}, reach=["loaded"]),
              H("ZZ_C14_Conc", params={"SETUP": 3, "FIXA": 1, "FIXB": 0, "PRE": 1}, reach=["history-complete"], bounds="Set k2 (evicting k1) vs Set k1 from the state promoted-and-overwritten; hybrid linearizability oracle; preemptions 1"),
              H("ZZ_C14_Seq", params={"N": 4}, reach=["sequence-done", "hit", "promoted-from-secondary"], bounds="N=4 calls, memory capacity 1"),
              H("ZZ_C14_Seq", params={"N": 4, "FULL": 1}, reach=["sequence-done", "hit"], bounds="N=4 calls, hand-off queue may be full at any demotion"),
              H("ZZ_C14_Seq", params={"N": 3, "PROB": 2}, reach=["sequence-done", "hit"], solver="cvc5", bounds="N=3 calls, admission probability symbolic in [0,1]"),
              H("ZZ_C14_StalePromoted", reach=["evicted-again"]), H("ZZ_C14_DeleteRace", params={"PRE": 1}, reach=["settled"]), H("ZZ_C14_Expired", reach=["read"]),
              H("ZZ_C14_DeleteVsGet", params={"PRE": 1}, reach=["settled"], bounds="hybrid Delete of a demoted key racing a hybrid Get, preemptions 1"),
              H("ZZ_C14_HybridLoadingExpiry", reach=["read"], bounds="hybrid loading cache: promoted entry, read time symbolic"),
              H("ZZ_C14_StaleAfterExpiry", reach=["read"], bounds="older copy in the secondary tier, newer value with TTL in memory, read time symbolic in [0,2^31] ns, before and after collection"),
              H("ZZ_C14_StaleAfterLostDemotion", params={"FULL": 1}, reach=["evicted-again"], bounds="newer value evicted with the hand-off queue possibly full"),
              H("ZZ_C14_StaleAfterLostDemotion", params={"PROB": 2}, reach=["evicted-again"], solver="cvc5", bounds="admission probability symbolic in [0,1]"),
              H("ZZ_C14_SetVsGet", params={"PRE": 1}, reach=["both-returned"], bounds="hybrid Get that missed in memory racing a Set of the same key, preemptions 1"),
              H("ZZ_C14_UpdateVsEvict", params={"PRE": 1}, reach=["both-returned"], bounds="overwrite of a promoted entry racing its eviction, preemptions 1"),
              H("ZZ_C15_ReloadAfterSecondaryExpiry", reach=["reloaded"], bounds="hybrid loading Get of a key whose only copy, in the secondary tier, has expired (advance 2^29..2^31 ns symbolic)"),
              H("ZZ_C14_LoadingVariants", params={"MODE": 0, "PRE": 1}, reach=["done"], bounds="hybrid loading Get racing a Set of the same key, preemptions 1"),
              H("ZZ_C14_LoadingVariants", params={"MODE": 1}, reach=["done"], bounds="hybrid loading Get after the newer value expired, read time symbolic")],
    "thorough": [H("ZZ_C14_SeqX", params={"N": 5, "FAIL": 1}, reach=["sequence-done", "hit"]), H("ZZ_C14_SeqX", params={"N": 5}, reach=["sequence-done", "hit"]),
              H("ZZ_C14_Conc", params={"SETUP": 0, "PRE": 1}, reach=["history-complete"], bounds="two clients x 1 op from {Set k1, Set k2, Get k1, Delete k1}, empty start"),
              H("ZZ_C14_Conc", params={"SETUP": 1, "PRE": 1}, reach=["history-complete"], bounds="key 1 demoted at the start"),
              H("ZZ_C14_Conc", params={"SETUP": 2, "PRE": 1}, reach=["history-complete"], bounds="key 1 promoted and clean at the start"),
              H("ZZ_C14_Conc", params={"SETUP": 3, "PRE": 1}, reach=["history-complete"], bounds="key 1 promoted and overwritten at the start"),
              H("ZZ_C14_Conc", params={"SETUP": 3, "FIXA": 1, "FIXB": 0, "FAIL": 1, "PRE": 1}, reach=["history-complete"], bounds="failing secondary writes"),
              H("ZZ_C14_FailedDemotion", params={"PROMOTE": 0}, reach=["evicted"]), H("ZZ_C14_FailedDemotion", params={"PROMOTE": 1}, reach=["evicted"]),
              H("ZZ_C14_SaveLoadHybrid", params={"PROMOTE": 0}, reach=["loaded"]), H("ZZ_C14_SaveLoadHybrid", params={"PROMOTE": 1}, reach=["loaded"]),
              H("ZZ_C14_StaleAfterExpiry", reach=["read"]), H("ZZ_C14_StaleAfterLostDemotion", params={"FULL": 1}, reach=["evicted-again"]),
                 H("ZZ_C14_StaleAfterLostDemotion", params={"PROB": 2}, reach=["evicted-again"], solver="cvc5"),
                 H("ZZ_C14_SetVsGet", params={"PRE": 2}, reach=["both-returned"]), H("ZZ_C14_LoadingVariants", params={"MODE": 0, "PRE": 2}, reach=["done"]), H("ZZ_C14_LoadingVariants", params={"MODE": 1}, reach=["done"]), H("ZZ_C14_UpdateVsEvict", params={"PRE": 2}, reach=["both-returned"]),
                 H("ZZ_C14_DeleteVsGet", params={"PRE": 2}, reach=["settled"]), H("ZZ_C14_HybridLoadingExpiry", reach=["read"]), H("ZZ_C14_Seq", params={"N": 5, "FULL": 1}, reach=["sequence-done", "hit"]), H("ZZ_C14_Seq", params={"N": 4, "PROB": 2}, reach=["sequence-done", "hit"], solver="cvc5"),
                 H("ZZ_C14_Seq", params={"N": 4, "PROB": 0}, reach=["sequence-done", "hit"]), H("ZZ_C14_Seq", params={"N": 4, "WORKERS": 2}, reach=["sequence-done", "hit"]),
                 H("ZZ_C14_Seq", params={"N": 5}, reach=["sequence-done", "hit", "promoted-from-secondary"], bounds="N=5 calls"),
                 H("ZZ_C14_StalePromoted", reach=["evicted-again"]), H("ZZ_C14_DeleteRace", params={"PRE": 2}, reach=["settled"]), H("ZZ_C14_Expired", reach=["read"])],
}

PROPS["C15"] = {
    "title": "evicted entries reach the secondary tier; memory stays bounded",
    "technique": "SSA symbolic execution with controlled threads of Set / loading Get overflowing a one-slot memory tier with the real worker; every secondary Set may fail (nondeterministic choice per call)",
    "level_text": "Bounded model checking: n writes (with or without TTL) or loads overflow a capacity-1 memory tier with admission probability 1; after the workers settle every capacity-evicted entry is in the secondary tier with the same value, cost and deadline and a hybrid Get returns it without reloading; with a failing secondary (every failure pattern) the error handler runs once per failure and the memory tier stays within MaxSize.",
    "level_note": _thr_note + "Secondary store = harness map; one worker; queue never full (the property conditions on it). Round 4/5 additions: a hybrid Get (plain and loading) racing the slow secondary write of the evicted entry (the entry is in one of the tiers at any time), failing demotion writes, demotion of entries restored by LoadCache.",
    "assumptions": ["workers given time to keep up (settle after each call)"],
    "outside_bound": ["more than 3 writes", "more than one worker"],
    "quick": [H("ZZ_C14_SeqX", params={"N": 4, "FAIL": 1}, reach=["sequence-done"], bounds="every pattern of failing secondary writes over 4 calls: error handler once per failure, memory tier within MaxSize"),
              H("ZZ_C14_SaveLoadHybrid", params={"PROMOTE": 0}, reach=["loaded"], bounds="entries restored by LoadCache into a hybrid cache are demoted on eviction like any other (still retrievable afterwards)"),
              H("ZZ_C14_SaveLoadHybrid", params={"PROMOTE": 1}, reach=["loaded"]),
              H("ZZ_C15_VisibleWhileDemoted", params={"PRE": 1}, reach=["both-returned"], bounds="hybrid Get racing the (slow) secondary write of the evicted entry: the entry is in one of the tiers at any time"),
              H("ZZ_C15_VisibleWhileDemoted", params={"PRE": 1, "LOADING": 1}, reach=["both-returned"], bounds="loading variant: no reload"),
              H("ZZ_C14_FailedDemotion", params={"PROMOTE": 0}, reach=["evicted"], bounds="failing secondary write: error handler per failure, memory within MaxSize"),
              H("ZZ_C15_Demotion", reach=["filled"]), H("ZZ_C15_Demotion", params={"FAIL": 1}, reach=["filled"], bounds="every failure pattern of 2 demotions"),
              H("ZZ_C15_LoaderDemotion", reach=["loaded-two"]),
              H("ZZ_C15_ReloadAfterSecondaryExpiry", reach=["reloaded"], bounds="loader entry reloaded after its secondary copy expired (advance 2^29..2^31 ns symbolic), then evicted again"),
              H("ZZ_C15_PoolRecycled", params={"POOL": 1}, reach=["recycling"], bounds="entry pool on: the object of a clean promoted entry is recycled for another key, which must still be demoted"),
              H("ZZ_C14_StalePromoted", reach=["evicted-again"], bounds="demote, promote, overwrite, evict again: the overwritten value must reach the secondary tier")],
    "thorough": [H("ZZ_C14_SeqX", params={"N": 5, "FAIL": 1}, reach=["sequence-done"]),
              H("ZZ_C15_VisibleWhileDemoted", params={"PRE": 2}, reach=["both-returned"]),
              H("ZZ_C15_VisibleWhileDemoted", params={"PRE": 2, "LOADING": 1}, reach=["both-returned"]),
              H("ZZ_C14_StalePromoted", reach=["evicted-again"]), H("ZZ_C15_Demotion", params={"N": 4}, reach=["filled"]), H("ZZ_C15_Demotion", params={"FAIL": 1, "N": 4}, reach=["filled"]),
                 H("ZZ_C15_LoaderDemotion", reach=["loaded-two"]),
                 H("ZZ_C15_ReloadAfterSecondaryExpiry", reach=["reloaded"]),
                 H("ZZ_C15_PoolRecycled", params={"POOL": 1}, reach=["recycling"]),
                 H("ZZ_C15_PoolRecycled", params={"POOL": 1, "POOLMODE": 2}, reach=["recycling"], bounds="adversarial choice among pooled objects")],
}

PROPS["C18"] = {
    "title": "equal keys address the same entry; different keys never alias (pre-1.24 hasher)",
    "technique": "SSA symbolic execution of hasher.NewHasher/Hash through their unsafe casts with xxh3 uninterpreted (cvc5, congruence), and of Store.Set/Get/Delete under a full 64-bit hash collision",
    "level_text": "Bounded symbolic model checking: for key types uint64, int32, bool, struct{uint32,uint32}, [2]uint32, *int and string the real Hash reads exactly the key's memory image (the executor models the fabricated string header and rejects padding or out-of-object reads), so equal keys hash equally and the hash is stable - decided by congruence of the uninterpreted xxh3; with a StringKeyFunc the hash depends on the derived string only; two different keys whose 64-bit hashes are assumed equal keep their own values through Set/Get/Delete and the accounting stays consistent.",
    "level_note": "Trusted: go/ssa, executor encoding of the unsafe string-header cast, cvc5/z3. Claimed in part: key types up to 8 bytes of scalars; the go1.24 maphash variant is not in this image's default toolchain; hash quality is out of scope. Round 4 addition: failed (panicking or erroring) load of one key, load of another key of the same duplicate-suppression group with an adversarial call-record pool, first key again.",
    "assumptions": ["xxh3 is a function (uninterpreted)"],
    "outside_bound": ["key types wider than 8 bytes", "struct keys with padding, string/float/interface fields (excluded by the property for pre-1.24)", "go1.24+ hasher"],
    "quick": [H("ZZ_C18_PanicThenOtherKey", reach=["third-get"], bounds="failed (panicking or erroring) load of k1, load of another key of the same shard with an adversarial call-record pool, k1 again"),
              H("ZZ_C18_Hasher", reach=["hashed"], solver="cvc5"), H("ZZ_C18_StringKeyFunc", reach=["hashed"], solver="cvc5"), H("ZZ_C18_Collision", reach=["collided"]),
              H("ZZ_C18_CollisionLoading", params={"PRE": 1}, reach=["both-loaded"], bounds="two colliding keys loaded concurrently through the loading cache, preemptions 1")],
    "thorough": [H("ZZ_C18_PanicThenOtherKey", reach=["third-get"]),
              H("ZZ_C18_Hasher", reach=["hashed"], solver="cvc5"), H("ZZ_C18_StringKeyFunc", reach=["hashed"], solver="cvc5"), H("ZZ_C18_Collision", reach=["collided"]),
                 H("ZZ_C18_Collision", params={"DOOR": 1}, reach=["collided"]), H("ZZ_C18_CollisionLoading", params={"PRE": 2}, reach=["both-loaded"])],
}

def _c19(pre):
    return [H("ZZ_C19_Pairs", params={"PAIR": p, "PRE": pre}, reach=["pair-done"], bounds=b) for p, b in
            [(0, "Range || Set"), (1, "Len/EstimatedSize || Delete+Set"), (2, "Stats || Get"), (3, "17 Gets (read-buffer drain) || Sets with eviction and listener"),
             (4, "tick/expiry || SetWithTTL || Get"), (5, "Close || Get/Set"), (6, "Wait || Set"), (7, "SaveCache || Set/Delete"), (8, "SaveCache || tick/expiry || Get"), (10, "Close || Len / Range"), (11, "Close || EstimatedSize / Stats / Delete"), (9, "loading Get || Delete/Set")]]

def _c19x(pre):
    return _c19(pre) + [H("ZZ_C13_Group", params={"CALLERS": 2, "PRE": 1, "OTHER": 1}, reach=["all-callers-finished"], bounds="duplicate-suppression call records: a joined caller and a caller of another key sharing the record pool, happens-before monitor on")]

PROPS["C19"] = {
    "title": "no data races in the default configuration (bounded)",
    "technique": "vector-clock (happens-before) race monitor inside the SSA executor over every heap cell loaded or stored, on two-thread programs of the real Store explored over all schedules within the preemption bound",
    "level_text": "Bounded model checking with a happens-before monitor: for pairs of API calls the suite never overlaps, every schedule at synchronisation granularity within the preemption bound is executed and every load/store of a heap cell (struct fields, slice elements, maps) is checked against the last conflicting access using vector clocks (edges: mutex release->acquire, channel send->receive and close->receive, go, WaitGroup, sync/atomic accesses). Because exploration is exhaustive inside the bound, a race in the bounded program is reported whichever schedule hides it from the Go race detector. The self-test plants a race and checks that it is reported.",
    "level_note": _thr_note + "Entry pool off, listener installed. Cells inside stubbed library objects and RBMutex internals (own harness under C01) are not monitored. Hybrid pairs are not among the programs; SaveCache runs with the gob stub. Round 4/5 additions: Close paired with Len/Range and with EstimatedSize/Stats/Delete; the duplicate-suppression call records (joined caller vs a caller of another key sharing the pool).",
    "assumptions": ["ideal reader/writer lock for RBMutex"],
    "outside_bound": ["more than 2 client threads", "hybrid-cache pairs", "preemption bound above 1 (thorough 2)"],
    "quick": _c19x(1),
    "thorough": _c19x(2),
}

NOT_APPLICABLE = [
    {"property_id": "C09", "reason": "statistical hit-ratio property over 10^4-10^6-step traces; no bounded symbolic execution of a handful of steps decides it (DESIGN.md §4 C09). The mechanisms it names (admission direction, demotion instead of eviction) are asserted structurally under C07."},
]


# ---- round 6 additions (programs written after the sixth round of seeded changes) ----
def _add(pid, tier, *hs):
    PROPS[pid].setdefault("thorough", list(PROPS[pid]["quick"]))
    PROPS[pid][tier].extend(hs)

_hist2 = "N=%d calls out of the wider menu: Set k1/k2 (symbolic cost, cost function, TTL), Get, Delete, clock advance, drain, tick, Range, loading Get k1/k2 (symbolic loader cost and TTL) with the C06 model, the Range clauses and the ledger"
_add("C06", "quick", H("ZZ_C06_History", params={"N": 2, "MENU": 1}, reach=["history-done", "loader-ran"], bounds=_hist2 % 2),
     H("ZZ_C06_History", params={"N": 2, "MENU": 1, "POOL": 1}, reach=["history-done"], bounds="entry pool on; " + _hist2 % 2))
_add("C06", "thorough", H("ZZ_C06_History", params={"N": 3, "MENU": 1}, reach=["history-done", "loader-ran"], bounds=_hist2 % 3, timeout_s=3000),
     H("ZZ_C06_History", params={"N": 2, "MENU": 1, "DOOR": 1}, reach=["history-done"], bounds="doorkeeper on; " + _hist2 % 2),
     H("ZZ_C06_History", params={"N": 2, "MENU": 1, "POOL": 1, "POOLMODE": 2, "CAP": 1}, reach=["history-done"], bounds="entry pool with adversarial reuse, MaxSize 1; " + _hist2 % 2, timeout_s=3000))
for _p in ("C01", "C16", "C13"):
    _add(_p, "quick", H("ZZ_C06_History", params={"N": 2, "MENU": 1}, reach=["history-done", "loader-ran"], bounds=_hist2 % 2))
    _add(_p, "thorough", H("ZZ_C06_History", params={"N": 2, "MENU": 1}, reach=["history-done", "loader-ran"], bounds=_hist2 % 2))
# C13: admission of a loaded value is Set's (cost function, MaxSize rule): the loader lemma of C06
for _t in ("quick", "thorough"):
    _add("C13", _t, H("ZZ_C06_Loader", reach=["loaded"], bounds="loader cost symbolic 0..MaxSize+5 (0 = cost function, symbolic): admitted exactly like a Set"))
# C04 / C11: persistence x timer wheel
_al = "saved cache up for %d s (restored deadline lands on wheel level %s of the new cache), TTL <= 2^31 ns and downtime <= 2^30 ns symbolic, five maintenance ticks"
_add("C04", "quick", H("ZZ_C04_AfterLoad", params={"UPS": 70}, reach=["ticks-done"], bounds=_al % (70, "1")),
     H("ZZ_C04_AfterLoad", params={"UPS": 4100}, reach=["ticks-done"], bounds=_al % (4100, "1-2")))
_add("C04", "thorough", H("ZZ_C04_AfterLoad", params={"UPS": 3}, reach=["ticks-done"], bounds=_al % (3, "0")),
     H("ZZ_C04_AfterLoad", params={"UPS": 70}, reach=["ticks-done"], bounds=_al % (70, "1")),
     H("ZZ_C04_AfterLoad", params={"UPS": 4100}, reach=["ticks-done"], bounds=_al % (4100, "1-2")),
     H("ZZ_C04_AfterLoad", params={"UPS": 90000}, reach=["ticks-done"], bounds=_al % (90000, "2")),
     H("ZZ_C04_AfterLoad", params={"UPS": 300000}, reach=["ticks-done"], bounds=_al % (300000, "3")),
     H("ZZ_C04_AfterLoad", params={"UPS": 1200000}, reach=["ticks-done"], bounds=_al % (1200000, "4")))
for _t in ("quick", "thorough"):
    _add("C11", _t, H("ZZ_C04_AfterLoad", params={"UPS": 70}, reach=["ticks-done"], bounds="restored deadlines are honoured by the new cache's wheel; " + _al % (70, "1")))
# C05: ledger on concurrent histories
_cc = "two clients x one call out of Set k1 / Delete k1 / Set k2, every interleaving within the preemption bound (a Delete may overtake the insert event of the Set it deletes)"
_add("C05", "quick", H("ZZ_C05_Conc", params={"PRE": 1}, reach=["drained"], bounds=_cc),
     H("ZZ_C05_Conc", params={"PRE": 1, "SETUP": 1}, reach=["drained"], bounds="k1 resident beforehand; " + _cc))
_add("C05", "thorough", H("ZZ_C05_Conc", params={"PRE": 2}, reach=["drained"], bounds=_cc),
     H("ZZ_C05_Conc", params={"PRE": 2, "SETUP": 1}, reach=["drained"], bounds="k1 resident beforehand; " + _cc),
     H("ZZ_C05_Conc", params={"PRE": 2, "CAP": 1}, reach=["drained"], bounds="MaxSize 1; " + _cc),
     H("ZZ_C05_Conc", params={"PRE": 1, "POOL": 1}, reach=["drained"], bounds="entry pool on; " + _cc))
for _t, _pre in (("quick", 1), ("thorough", 2)):
    _add("C02", _t, H("ZZ_C05_Conc", params={"PRE": _pre}, reach=["drained"], bounds="accounting after the drain; " + _cc))
# C20: barrier while the victim's shard is busy
_bs = "MaxSize 1, a failing loader of another key holds the victim's shard lock across three yields while a Set forces the eviction and Wait is called"
_add("C20", "quick", H("ZZ_C20_BarrierWithBusyShard", params={"PRE": 1}, reach=["barrier-returned", "all-returned"], bounds=_bs, step_limit=200000),
     H("ZZ_C20_BarrierWithBusyShard", params={"PRE": 2}, reach=["barrier-returned", "all-returned"], bounds=_bs, step_limit=200000))
_add("C20", "thorough", H("ZZ_C20_BarrierWithBusyShard", params={"PRE": 3}, reach=["barrier-returned", "all-returned"], bounds=_bs, step_limit=200000))
# C14 / C03: deadline of a value that is overwritten while it is being demoted
_dd = "long-TTL value being demoted (MaxSize 1) vs SetWithTTL with a short TTL on the same key; read after the short deadline"
for _pid in ("C14", "C03"):
    _add(_pid, "quick", H("ZZ_C14_DeadlineVsDemotion", params={"PRE": 1, "LOADING": 1}, reach=["both-returned"], bounds=_dd))
    _add(_pid, "thorough", H("ZZ_C14_DeadlineVsDemotion", params={"PRE": 2, "LOADING": 1}, reach=["both-returned"], bounds=_dd))
# C01 / C18: entry pool without a removal listener
_pn = "entry pool on, no removal listener, full cache of MaxSize 4; Set k1 (cost 1..3 symbolic) and Delete k1 at once, then two more keys"
for _pid in ("C01", "C18"):
    _add(_pid, "quick", H("ZZ_C01_PoolNoListener", params={"PRE": 0}, reach=["two-more-keys"], bounds=_pn), H("ZZ_C01_PoolNoListener", params={"PRE": 1}, reach=["two-more-keys"], bounds=_pn))
    _add(_pid, "thorough", H("ZZ_C01_PoolNoListener", params={"PRE": 2}, reach=["two-more-keys"], bounds=_pn), H("ZZ_C01_PoolNoListener", params={"PRE": 2, "POOLMODE": 2, "CAP": 6}, reach=["two-more-keys"], bounds="adversarial pool reuse, MaxSize 6; " + _pn))
for _t in ("quick", "thorough"):
    _add("C13", _t, H("ZZ_C13_FailedLoadCostFn", reach=["failed-load-returned"], bounds="cache with a cost function that is only defined on loaded values; failing loader, then a succeeding one"))
for _t in ("quick", "thorough"):
    _add("C07", _t, H("ZZ_C04_LateUpdate", reach=["three-ticks"], bounds="through the Store: a cost-changing TTL update applied 2^31 ns late; region sizes, policy total and resident cost agree afterwards"))
for _t in ("quick", "thorough"):
    _add("C18", _t, H("ZZ_C01_Linearizable", params={"PRE": 0, "LOADING": 1}, reach=["history-complete"], bounds="loading cache with the happens-before monitor: a hit never reads the entry's value outside the shard lock (with the entry pool that read can yield another key's value)"))
for _pid in ("C15", "C05", "C02", "C14"):
    for _t in ("quick", "thorough"):
        _add(_pid, _t, H("ZZ_C15_FailedSecondaryDelete", reach=["delete-returned"], bounds="hybrid Delete with the secondary store's Delete failing or succeeding by choice; retry after recovery"))
for _pid in ("C06", "C14"):
    for _t in ("quick", "thorough"):
        _add(_pid, _t, H("ZZ_C06_OversizePromotion", reach=["promoted-or-not"], bounds="hybrid Get of a key whose copy in the secondary tier has a recorded cost 1..6 (symbolic), MaxSize 2"),
             H("ZZ_C06_OversizePromotion", params={"LOADING": 1}, reach=["promoted-or-not"], bounds="hybrid loading Get; secondary copy with recorded cost 1..6 (symbolic), MaxSize 2"))
PROPS["C06"]["level_note"] += " Round 6: wider history menu (Range, loading Gets, entry pool); ZZ_C06_OversizePromotion - the MaxSize rule on the promotion path from the secondary tier."
PROPS["C15"]["level_note"] += " Round 6: ZZ_C15_FailedSecondaryDelete - failing secondary Delete (the failure schedule now includes Delete, not only Set)."
_add("C05", "quick", H("ZZ_C05_Conc", params={"PRE": 2}, reach=["drained"], bounds=_cc), H("ZZ_C05_Conc", params={"PRE": 2, "SETUP": 1}, reach=["drained"], bounds="k1 resident beforehand; " + _cc))
_add("C20", "quick", H("ZZ_C20_BarrierWithBusyShard", params={"PRE": 3}, reach=["barrier-returned", "all-returned"], bounds=_bs, step_limit=200000))
for _pid in ("C01", "C18"):
    _add(_pid, "quick", H("ZZ_C01_PoolNoListener", params={"PRE": 2}, reach=["two-more-keys"], bounds=_pn))
PROPS["C20"]["level_note"] += " Round 6: the executor no longer assumes a queue order among receivers blocked on one unbuffered channel (which of them takes a rendezvous is a scheduling choice); with that ZZ_C20_TwoBarriers found the anonymous wake-up defect repaired in c8a6bbf. ZZ_C20_BarrierWithBusyShard: barrier while a loader holds the victim's shard lock (instruction budget 200000 per path: a retry loop that spins while the loader is not scheduled ends as an unwinding failure)."
PROPS["C13"]["level_note"] += " Round 6: ZZ_C13_FailedLoadCostFn (cost function only defined on loaded values, failing loader; found the defect repaired in ed1b607), ZZ_C06_Loader and the wider history menu (loading Gets with symbolic loader cost / cost function / TTL) listed here for the admitted-like-a-Set clause."
PROPS["C04"]["level_note"] += " Round 6: ZZ_C04_AfterLoad - deadlines restored by LoadCache are collected on time by the wheel of the new cache (saved uptime per configuration so that every wheel level is visited; TTL, downtime symbolic)."
PROPS["C05"]["level_note"] += " Round 6: ZZ_C05_Conc carries the notification ledger over two clients x one call in every interleaving (REMOVE overtaking NEW included)."
PROPS["C01"]["level_note"] += " Round 6: ZZ_C01_PoolNoListener (entry pool without removal listener; cost of the deleted key symbolic), wider history menu with Range and loading Gets."

def main():
    checks = {}
    manifest_checks = []
    all_ids = [json.loads(l)["id"] for l in open(os.path.join(ROOT, "properties.jsonl"))]
    for pid in sorted(PROPS):
        p = PROPS[pid]
        checks[pid] = {"level": "model_checking", "assumptions": p.get("assumptions", []), "outside_bound": p.get("outside_bound", []),
                       "stubs": p.get("stubs", COMMON_STUBS), "quick": p["quick"], "thorough": p.get("thorough", p["quick"])}
        manifest_checks.append({
            "property_id": pid,
            "quick_cmd": "./check %s quick" % pid,
            "thorough_cmd": "./check %s thorough" % pid,
            "evidence_file": "/verif/evidence/%s.json" % pid,
            "replay_cmd_template": "bin/gosmt replay -file {path}",
            "engine": "gosmt",
            "level_claimed": {"category": "model_checking", "text": p["level_text"], "design_ref": p.get("design_ref", "DESIGN.md §4 " + pid)},
            "level_note": p["level_note"],
            "technique": p["technique"],
        })
    na = list(NOT_APPLICABLE)
    claimed = set(PROPS)
    listed = {x["property_id"] for x in na}
    for pid in all_ids:
        if pid not in claimed and pid not in listed:
            na.append({"property_id": pid, "reason": "check not built yet in this round (planned: DESIGN.md §4 %s); not claimed until its harness runs clean on the unchanged tree" % pid})
    na = [x for x in na if x["property_id"] not in claimed]
    manifest = {
        "version": 1,
        "setup_cmd": "cd /verif && export GOFLAGS=-mod=mod GOPROXY=off GOSUMDB=off GOTOOLCHAIN=local && mkdir -p bin && (cd engine && go build -o ../bin/gosmt .) && ./selftest",
        "hooks": {"guard": "verif", "enable": "no source changes: harness files carrying //go:build verif are injected through the go/packages Overlay (-tags verif) when gosmt loads /repo", "baseline_off_cmd": "cd /repo && go build ./... && go test -vet=off -count=1 -timeout 25m ./...", "source_commits": [], "add_only": True},
        "engines": [{"name": "gosmt", "path": "/verif/engine", "serves_properties": sorted(PROPS), "kind_free_text": "own SSA (go/ssa) symbolic executor for Go with SMT back end (z3 -in): bit-vector/FP/array terms, path exploration by re-execution, controlled threads with schedule choice, deadlock detection, vector-clock race monitor"}],
        "checks": manifest_checks,
        "not_applicable": na,
        "notes": "All checks are solver-based bounded model checking of /repo's real code via go/ssa; encoding regenerated from /repo's working tree on every run. Known findings: /verif/known_findings.json.",
    }
    json.dump(checks, open(os.path.join(ROOT, "checks.json"), "w"), indent=1)
    json.dump(manifest, open(os.path.join(ROOT, "MANIFEST.json"), "w"), indent=1)
    print("wrote checks.json (%d properties), MANIFEST.json (%d not applicable)" % (len(checks), len(na)))

if __name__ == "__main__":
    main()
