#!/bin/sh
# usage: tools/seedrun.sh <patch.diff> <gosmt run args...>   e.g. tools/seedrun.sh seeded/C01_4/patch.diff -func ZZ_C01_Linearizable -D OPS=3
# Applies a seeded change to a scratch worktree of /repo HEAD and runs ONE harness against it (development aid).
patch=$(realpath "$1"); shift
wt=/root/scratch/seedwt_$$
ev=/root/scratch/seedev_$$
mkdir -p /root/scratch
git -C /repo worktree add -q "$wt" HEAD || exit 2
( cd "$wt" && git apply "$patch" ) || { echo "patch does not apply"; git -C /repo worktree remove --force "$wt"; exit 2; }
/verif/bin/gosmt run -repo "$wt" -evdir "$ev" "$@" 2>&1 | grep -vE "^  \.\.\." | cut -c1-400 | tail -15
git -C /repo worktree remove --force "$wt"
rm -rf "$ev"
