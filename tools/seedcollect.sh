#!/bin/sh
# usage: tools/seedcollect.sh <prop> <round> [demo_subdir]  -- collects a sub-agent's seed from /tmp/r<round>_<prop> into seeded/<prop>_<round>
p=$1; r=$2; sub=${3:-internal}
wt=/tmp/r${r}_$p
d=/verif/seeded/${p}_$r
mkdir -p $d
git -C $wt diff > $d/patch.diff
if [ "$sub" = "." ]; then cp $wt/zz_seed_demo_test.go $d/; else cp $wt/$sub/zz_seed_demo_test.go $d/; fi
cp $wt/SEED_NOTES.md $d/notes.md 2>/dev/null
wc -l $d/patch.diff
git -C $wt diff --stat | tail -1
