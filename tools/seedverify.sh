#!/bin/sh
# usage: tools/seedverify.sh <seed_dir> <demo_subdir: internal|.> [full]
# Confirms in a scratch worktree: demo passes without the patch, fails with it; with "full": whole suite passes with the patch.
d=$1; sub=$2; full=$3
wt=/root/scratch/sv_$$
export GOFLAGS=-mod=mod GOPROXY=off GOSUMDB=off GOTOOLCHAIN=local
git -C /repo worktree add -q "$wt" HEAD || exit 2
cp "$d"/zz_seed_demo_test.go "$wt/$sub/"
cd "$wt"
go test -vet=off -count=1 -run 'Seed' ./$sub > /tmp/sv_a.log 2>&1; a=$?
git apply "$d/patch.diff" || { echo "patch does not apply"; cd /; git -C /repo worktree remove --force "$wt"; exit 2; }
go build ./... || { echo "does not build"; }
go test -vet=off -count=1 -run 'Seed' ./$sub > /tmp/sv_b.log 2>&1; b=$?
echo "demo without patch: exit $a (want 0); with patch: exit $b (want non-zero)"
if [ "$full" = "full" ]; then
  rm -f "$wt/$sub/zz_seed_demo_test.go"
  go test -vet=off -count=1 -timeout 25m ./... > /tmp/sv_full.log 2>&1; echo "full suite with patch: exit $? (want 0)"; grep -E "^(FAIL|--- FAIL)" /tmp/sv_full.log | head
fi
cd /; git -C /repo worktree remove --force "$wt"
