#!/usr/bin/env python3
"""Mutation self-test: applies small source mutations (the "M" lists of DESIGN.md §4 and more) to a scratch
worktree of /repo HEAD, one at a time, and runs the quick check of the property each mutation is expected
to break.  usage: tools/mutants.py [id-prefix ...]      (results: /verif/seeded/mutants_report.json)
Mutants are NOT guaranteed to pass the repository's own tests; they measure what the checks can see."""
import json, os, subprocess, sys, time

M = []
def mut(mid, props, path, old, new, note=""):
    M.append(dict(id=mid, props=props, path=path, old=old, new=new, note=note))

S, T, W, L, K, B, E, SF, SL, H = ("internal/store.go", "internal/tlfu.go", "internal/timerwheel.go", "internal/list.go",
                                  "internal/sketch.go", "internal/buffer.go", "internal/entry.go", "internal/singleflight.go", "internal/slru.go", "internal/hasher/hasher.go")

# ---- C17 sketch
mut("C17-mask7", ["C17"], K, "return uint(index), uint((h >> 1) & 0xf)", "return uint(index), uint((h >> 1) & 0x7)", "counter index mask")
mut("C17-shift", ["C17"], K, "offset = offset << 2\n\tmask := uint64(0xF << offset)", "offset = offset << 1\n\tmask := uint64(0xF << offset)", "nibble offset")
mut("C17-resetmask", ["C17"], K, "resetMask = 0x7777777777777777", "resetMask = 0x7777777777777770")
mut("C17-grow-ge", ["C17"], K, "if len(s.Table) >= int(size) {", "if len(s.Table) > int(size) {")
mut("C17-block", ["C17"], K, "block := (blockHash & uint64(s.BlockMask)) << 3\n\tcounterHash", "block := (blockHash & uint64(s.BlockMask)) << 2\n\tcounterHash")
mut("C17-sample", ["C17"], K, "if s.Additions == s.SampleSize {", "if s.Additions > s.SampleSize {")
mut("C17-estimate", ["C17"], K, "m = min(s.count(hc, block, 3), m)\n\treturn m", "return m", "fourth counter ignored")
# ---- C03 deadline
mut("C03-le", ["C03"], S, "expired = (expire-now <= 0)", "expired = (expire-now < 0)")
mut("C03-cached-le", ["C03"], S, "if expire-nowCached <= 0 {", "if expire-nowCached < 0 {")
mut("C03-range", ["C03"], S, "if expire != 0 && expire <= now {\n\t\t\t\tcontinue", "if expire != 0 && expire < now {\n\t\t\t\tcontinue")
mut("C03-nosat", ["C03"], "internal/clock/clock.go", "return saturatingAdd(c.NowNano(), ttl.Nanoseconds())", "return c.NowNano() + ttl.Nanoseconds()")
mut("C03-window", ["C03"], S, "} else if expire-nowCached < 30*1e9 {", "} else if expire-nowCached < 3*1e9 {", "narrower precise-clock window")
# ---- C04 wheel
mut("C04-mask", ["C04"], W, "slot := int(ticks) & (int(tw.buckets[i]) - 1)", "slot := int(ticks) & int(tw.buckets[i])")
mut("C04-lt", ["C04"], W, "if entry.expire.Load() <= tw.nanos {", "if entry.expire.Load() < tw.nanos {")
mut("C04-nocascade", ["C04"], W, "\t\t\t} else {\n\t\t\t\ttw.schedule(entry)\n\t\t\t}", "\t\t\t}", "no cascade")
mut("C04-level", ["C04"], W, "if duration < int64(tw.spans[i+1]) {", "if duration <= int64(tw.spans[i+1]) {")
mut("C04-prev", ["C04"], W, "start := prevTicks & int64(mask)", "start := (prevTicks + 1) & int64(mask)")
# ---- C06
mut("C06-gt", ["C06"], S, "if cost > int64(s.cap) {\n\t\treturn false", "if cost >= int64(s.cap) {\n\t\treturn false")
mut("C06-door-true", ["C06"], S, "shard.counter += 1\n\t\t\tresult.success = false", "shard.counter += 1\n\t\t\tresult.success = true")
mut("C06-noswap", ["C06", "C02"], S, "old := exist.weight.Swap(cost)\n\t\tresult.oldCost = old", "old := exist.weight.Load()\n\t\tresult.oldCost = old")
mut("C06-ttlkeep", ["C06", "C03"], S, "if ok && expire > 0 {\n\t\told := exist.expire.Swap(expire)", "if ok && expire > 0 && exist.expire.Load() == 0 {\n\t\told := exist.expire.Swap(expire)", "TTL only set when none before")
mut("C06-costfn", ["C06"], S, "if cost == 0 {\n\t\tcost = s.cost(value)\n\t}\n\tif cost > int64(s.cap) {", "if cost > int64(s.cap) {\n\t\treturn false\n\t}\n\tif cost == 0 {\n\t\tcost = s.cost(value)\n\t}\n\tif false {")
# ---- C07 policy
mut("C07-updlen", ["C07"], T, "t.window.len += weightChange\n", "")
mut("C07-evictwin", ["C07"], T, "for t.window.Len() > int(t.window.capacity) {", "for t.window.Len() >= int(t.window.capacity) {")
mut("C07-candcap", ["C07"], T, "if candidate.policyWeight > int64(t.weightedSize) {", "if candidate.policyWeight > int64(t.capacity) {")
mut("C07-samecand", ["C07"], T, "if victim == candidate {\n\t\t\tvictim = victim.PrevPolicy()\n\t\t\tt.Remove(candidate, true)\n\t\t\tcandidate = nil\n\t\t\tcontinue\n\t\t}\n", "")
mut("C07-flag", ["C07"], L, "\t\te.flag.SetProbation(false)\n\t\te.flag.SetProtected(false)\n\t\te.flag.SetWindow(false)", "\t\te.flag.SetProbation(false)\n\t\te.flag.SetWindow(false)")
mut("C07-count", ["C07"], L, "l.len += -e.policyWeight\n\tl.count -= 1", "l.len += -e.policyWeight")
mut("C07-resize", ["C07"], T, "t.window.capacity -= uint(t.amount)\n\tt.slru.protected.capacity += uint(t.amount)\n}", "t.window.capacity -= uint(t.amount)\n}", "capacity not conserved")
mut("C07-demote", ["C07"], T, "for t.slru.protected.Len() > int(t.slru.protected.capacity) {\n\t\tentry := t.slru.protected.PopTail()\n\t\tt.slru.probation.PushFront(entry)", "for t.slru.protected.Len() > int(t.slru.protected.capacity) {\n\t\tentry := t.slru.protected.PopTail()\n\t\tt.removeCallback(entry)", "overflow evicted instead of demoted")
mut("C07-remove-size", ["C07", "C02"], T, "t.weightedSize -= uint(entry.policyWeight)\n\tif callback {", "if callback {")
# ---- C02 / C05 / C20 / C10 pipeline
mut("C02-absolute", ["C02"], S, "costChange := cost - old", "costChange := cost")
mut("C02-nodefer", ["C02"], S, "\t\t// create/update race\n\t\tif entry.meta.prev == nil {\n\t\t\treturn\n\t\t}\n", "")
mut("C02-noevict", ["C02", "C07"], T, "if t.weightedSize > t.capacity {\n\t\tt.EvictEntries()\n\t}", "")
mut("C05-notify-nocheck", ["C05"], S, "\t\tif deleted {\n\t\t\tk, v := entry.key, entry.value\n\t\t\tif s.removalListener != nil {", "\t\tif deleted || true {\n\t\t\tk, v := entry.key, entry.value\n\t\t\tif s.removalListener != nil {")
mut("C05-reason", ["C05"], S, "case EVICTE:\n\t\ts.removeEntry(entry, EVICTED)", "case EVICTE:\n\t\ts.removeEntry(entry, EXPIRED)")
mut("C05-expired-as-evicted", ["C05", "C04"], S, "\t\t\tif expire <= s.timerwheel.clock.NowNano() {\n\t\t\t\ts.removeEntry(entry, EXPIRED)\n\t\t\t\treturn", "\t\t\tif expire <= s.timerwheel.clock.NowNano() {\n\t\t\t\ts.removeEntry(entry, EVICTED)\n\t\t\t\treturn")
mut("C20-early-wake", ["C20"], S, "\tvar wait int\n\tfor _, item := range s.writeBuffer {", "\tvar wait int\n\tfor _, item := range s.writeBuffer {\n\t\tif item.code == WAIT {\n\t\t\tselect {\n\t\t\tcase s.waitChan <- true:\n\t\t\t\twait--\n\t\t\tdefault:\n\t\t\t}\n\t\t}\n\t}\n\tfor _, item := range s.writeBuffer {", "answers waiters before the batch is applied")
mut("C20-marker-as-event", ["C20"], S, "\t\t\twait++\n\t\t\tcontinue\n", "\t\t\twait++\n")
mut("C10-cancel-first", ["C10"], S, "func (s *Store[K, V]) Close() {\n\tfor _, shard := range s.shards {", "func (s *Store[K, V]) Close() {\n\ts.cancel()\n\tfor _, shard := range s.shards {")
mut("C10-noclosedflag", ["C10"], S, "\t\tshard.closed = true\n\t\tshard.hashmap = map[K]*Entry[K, V]{}", "\t\tshard.hashmap = map[K]*Entry[K, V]{}")
mut("C10-loading-closed", ["C10"], S, "\t\t\tif shard.closed {\n\t\t\t\treturn Loaded[V]{}, ErrCacheClosed\n\t\t\t}\n", "")
# ---- C08 buffer
mut("C08-size", ["C08"], B, "if size >= capacity {", "if size > capacity {")
mut("C08-notoken", ["C08"], B, "\tif !atomic.CompareAndSwapPointer(&b.returned, b.policyBuffers, nil) {\n\t\t// somebody already get buffer\n\t\treturn nil\n\t}\n", "\tatomic.StorePointer(&b.returned, nil)\n")
mut("C08-free-noclear", ["C08"], B, "\tpb.Returned = pb.Returned[:0]\n\tatomic.StorePointer(&b.returned, b.policyBuffers)", "\tatomic.StorePointer(&b.returned, b.policyBuffers)")
# ---- C13 singleflight
mut("C13-delete-late", ["C13"], SF, "\t\tc.wg.Done()\n\t\tif g.m[key] == c {\n\t\t\tdelete(g.m, key)\n\t\t}", "\t\tc.wg.Done()")
mut("C13-cache-error", ["C13"], S, "\t\t\tif err == nil && loaded.Cost <= int64(s.cap) {", "\t\t\tif loaded.Cost <= int64(s.cap) {", "error result stored")
mut("C13-nounlock", ["C13", "C10"], S, "\t\t\t// load and store should be atomic\n\t\t\tshard.mu.Lock()\n\t\t\tdefer shard.mu.Unlock()\n\t\t\tif shard.closed {", "\t\t\t// load and store should be atomic\n\t\t\tshard.mu.Lock()\n\t\t\tif shard.closed {\n\t\t\t\tshard.mu.Unlock()", "lock released only on the closed path")
# ---- C16
mut("C16-doublehit", ["C16"], S, "\t} else {\n\t\ts.policy.hits.Add(1)\n\t\tidx := s.getReadBufferIdx()", "\t} else {\n\t\ts.policy.hits.Add(2)\n\t\tidx := s.getReadBufferIdx()")
mut("C16-len", ["C16", "C02"], S, "func (s *Shard[K, V]) len() int {\n\treturn len(s.hashmap)", "func (s *Shard[K, V]) len() int {\n\treturn len(s.hashmap) + 0*len(s.hashmap) - boolToInt(s.closed)")
mut("C16-estimated", ["C16", "C02"], S, "total := s.policy.window.Len() + s.policy.slru.protected.Len() + s.policy.slru.probation.Len()", "total := s.policy.window.Len() + s.policy.slru.protected.Len()")
mut("C16-range-stop", ["C16"], S, "\t\t\tif !f(entry.key, entry.value) {\n\t\t\t\tshard.mu.RUnlock(tk)\n\t\t\t\treturn\n\t\t\t}", "\t\t\tif !f(entry.key, entry.value) {\n\t\t\t\tbreak\n\t\t\t}")
# ---- C18
mut("C18-ksize", ["C18"], H, "h.ksize = int(unsafe.Sizeof(k))", "h.ksize = int(unsafe.Sizeof(k)) / 2 * 2 / 2", "half of the key hashed")
mut("C18-byhash", ["C18", "C01"], S, "\texist, ok := s.hashmap[entry.key]\n\tif ok && exist == entry {", "\texist, ok := s.hashmap[entry.key]\n\tif ok {", "identity check dropped in Shard.delete")
# ---- C01
mut("C01-value-after-unlock", ["C01", "C19"], S, "\ttk := shard.mu.RLock()\n\tdefer shard.mu.RUnlock(tk)\n\tentry, ok := shard.get(key)", "\ttk := shard.mu.RLock()\n\tentry, ok := shard.get(key)\n\tshard.mu.RUnlock(tk)")
mut("C01-delete-noremove", ["C01", "C06"], S, "\tentry, ok := shard.get(key)\n\tif ok {\n\t\tshard.delete(entry)\n\t}\n\tshard.mu.Unlock()\n\tif ok {\n\t\ts.sendWrite(WriteBufItem[K, V]{entry: entry, code: REMOVE, hash: h})", "\tentry, ok := shard.get(key)\n\tshard.mu.Unlock()\n\tif ok {\n\t\ts.sendWrite(WriteBufItem[K, V]{entry: entry, code: REMOVE, hash: h})", "Delete leaves the map slot to the policy")
# ---- C11 / C12
mut("C11-order", ["C11"], S, "\t\t\t\t\tl2.PushBack(entry)\n\t\t\t\t\ts.insertSimple(entry)", "\t\t\t\t\tl2.PushFront(entry)\n\t\t\t\t\ts.insertSimple(entry)")
mut("C11-nosize", ["C11"], S, "\t\t\t\t\ts.policy.weightedSize += uint(entry.policyWeight)\n\t\t\t\t}\n\t\t\t}\n\t\tcase 4:", "\t\t\t\t}\n\t\t\t}\n\t\tcase 4:")
mut("C11-nofreq", ["C11"], S, "\t\t\t\tif pentry.Frequency > 0 {\n\t\t\t\t\ts.policy.sketch.Addn(s.hasher.Hash(entry.key), pentry.Frequency)\n\t\t\t\t}\n\t\t\t\ts.policy.weightedSize += uint(entry.policyWeight)\n\t\t\t}\n\t\t}\n\tcase 3:", "\t\t\t\ts.policy.weightedSize += uint(entry.policyWeight)\n\t\t\t}\n\t\t}\n\tcase 3:")
mut("C12-nochecksum", ["C12"], S, "\t\tif block.CheckSum != xxh3.Hash(block.Data) {\n\t\t\treturn errors.New(\"checksum mismatch\")\n\t\t}\n", "\t\t_ = xxh3.Hash\n")
mut("C12-version-late", ["C12"], S, "\t\t\tif m.Version != version {\n\t\t\t\treturn VersionMismatch\n\t\t\t}\n", "\t\t\tdefer func(v uint64) { _ = v }(m.Version)\n")
# ---- C14 / C15
mut("C14-nodeadline", ["C14"], S, "\t\tif expire != 0 && expire <= s.timerwheel.clock.NowNano() {\n\t\t\terr = s.secondaryCache.Delete(key)", "\t\tif false {\n\t\t\terr = s.secondaryCache.Delete(key)")
mut("C14-delete-memory-only", ["C14"], S, "\tif s.secondaryCache != nil {\n\t\terr := s.secondaryCache.Delete(key)\n\t\tif err != nil {\n\t\t\tshard.mu.Unlock()\n\t\t\treturn err\n\t\t}\n\t}\n\tshard.mu.Unlock()", "\tshard.mu.Unlock()")
mut("C15-noerrcb", ["C15"], S, "\t\t\tif err != nil {\n\t\t\t\ts.secondaryCache.HandleAsyncError(err)", "\t\t\tif err != nil {\n\t\t\t\t_ = err")
mut("C15-demote-after-remove", ["C15", "C14"], S, "\t\t\t\t\tentry:  entry,\n\t\t\t\t\treason: reason,\n\t\t\t\t\tshard:  shard,\n\t\t\t\t}:\n\t\t\t\t\treturn", "\t\t\t\t\tentry:  entry,\n\t\t\t\t\treason: reason,\n\t\t\t\t\tshard:  shard,\n\t\t\t\t}:")

# ---- second batch: lock discipline, back-pressure, pool guard
mut("C19-len-nolock", ["C19", "C16"], S, "\tfor _, s := range s.shards {\n\t\ttk := s.mu.RLock()\n\t\ttotal += s.len()\n\t\ts.mu.RUnlock(tk)\n\t}\n\treturn total", "\tfor _, s := range s.shards {\n\t\ttotal += s.len()\n\t}\n\treturn total", "Len without the shard lock")
mut("C19-est-nolock", ["C19", "C16"], S, "\ts.policyMu.Lock()\n\ttotal := s.policy.window.Len() + s.policy.slru.protected.Len() + s.policy.slru.probation.Len()\n\ts.policyMu.Unlock()", "\ttotal := s.policy.window.Len() + s.policy.slru.protected.Len() + s.policy.slru.probation.Len()", "EstimatedSize without the policy lock")
mut("C19-evict-nolock", ["C19", "C01"], S, "\t\tshard.mu.Lock()\n\t\tdeleted := shard.delete(entry)\n\t\tshard.mu.Unlock()\n\t\tif deleted {\n\t\t\tk, v := entry.key, entry.value", "\t\tdeleted := shard.delete(entry)\n\t\tif deleted {\n\t\t\tk, v := entry.key, entry.value", "eviction removes the map slot without the shard lock")
mut("C19-close-nolock", ["C19", "C10"], S, "\t\tshard.mu.Lock()\n\t\tshard.closed = true\n\t\tshard.hashmap = map[K]*Entry[K, V]{}\n\t\tshard.mu.Unlock()", "\t\tshard.closed = true\n\t\tshard.hashmap = map[K]*Entry[K, V]{}", "Close without the shard locks")
mut("C19-drainread-nolock", ["C19", "C08"], S, "func (s *Store[K, V]) drainRead(buffer []ReadBufItem[K, V]) {\n\ts.policyMu.Lock()", "func (s *Store[K, V]) drainRead(buffer []ReadBufItem[K, V]) {\n\tdefer s.policyMu.Lock()", "read drain touches the policy before taking the policy lock")
mut("C02-nonblocking-send", ["C02", "C20"], S, "\tselect {\n\tcase s.writeChan <- item:\n\tcase <-s.ctx.Done():\n\t}", "\tselect {\n\tcase s.writeChan <- item:\n\tcase <-s.ctx.Done():\n\tdefault:\n\t}", "event dropped when the queue is full")
mut("C01-pool-guard", ["C01", "C02"], S, "\t\tif entry.key == key {\n\t\t\t// put back and create an entry manually\n\t\t\t// because same key reuse might cause race condition\n\t\t\ts.entryPool.Put(entry)\n\t\t\tentry = &Entry[K, V]{}\n\t\t}\n", "", "same-key reuse guard removed (entry pool)")
mut("C01-pool-flagreset", ["C15", "C01"], S, "\t\tentry.value = zero\n\t\tentry.flag = Flag{}\n\t\ts.entryPool.Put(entry)", "\t\tentry.value = zero\n\t\ts.entryPool.Put(entry)", "flags of a recycled entry not reset")
mut("C11-nofreq2", ["C11"], S, "\t\t\t\t\tif pentry.Frequency > 0 {\n\t\t\t\t\t\ts.policy.sketch.Addn(s.hasher.Hash(entry.key), pentry.Frequency)\n\t\t\t\t\t}\n\t\t\t\t\ts.policy.weightedSize += uint(entry.policyWeight)\n\t\t\t\t}\n\t\t\t}\n\t\tcase 4:", "\t\t\t\t\ts.policy.weightedSize += uint(entry.policyWeight)\n\t\t\t\t}\n\t\t\t}\n\t\tcase 4:", "frequency not re-added for probation entries")
mut("C11-expire-cmp", ["C11"], S, "\t\t\t\tif expire != 0 && expire < s.timerwheel.clock.NowNano() {\n\t\t\t\t\tcontinue\n\t\t\t\t}\n\t\t\t\tl := s.policy.slru.protected", "\t\t\t\tif expire != 0 && expire > s.timerwheel.clock.NowNano() {\n\t\t\t\t\tcontinue\n\t\t\t\t}\n\t\t\t\tl := s.policy.slru.protected", "expiry filter inverted for the protected region")
# (C20-fifo, "a marker that opens a batch is answered at once", was dropped: equivalent, everything queued before such a marker was applied by earlier batches)
mut("C13-pool-before-read", ["C13"], SF, "\t\tv = c.val\n\t\terr = c.err\n\t\tn := c.dups.Add(-1)\n\t\tif n == 0 {\n\t\t\tg.callPool.Put(c)\n\t\t}\n\t\treturn v, err, true", "\t\tn := c.dups.Add(-1)\n\t\tif n == 0 {\n\t\t\tg.callPool.Put(c)\n\t\t}\n\t\treturn c.val, c.err, true", "follower reads the result after handing the record back to the pool")
# (C06-update-oversize dropped: equivalent, Set and the loader refuse costs above MaxSize before any update reaches the policy)

def sh(cmd, cwd=None, timeout=1800):
    p = subprocess.run(cmd, shell=True, cwd=cwd, capture_output=True, text=True, timeout=timeout)
    return p.returncode, p.stdout + p.stderr

def main():
    sel = sys.argv[1:]
    env = "export GOFLAGS=-mod=mod GOPROXY=off GOSUMDB=off GOTOOLCHAIN=local; "
    report_path = "/verif/seeded/mutants_report.json"
    report = {}
    if os.path.exists(report_path):
        report = json.load(open(report_path))
    for m in M:
        if sel and not any(m["id"].startswith(s) for s in sel):
            continue
        wt = "/root/scratch/mut_wt_%d" % os.getpid()
        ev = "/root/scratch/mut_ev_%d" % os.getpid()
        sh("git -C /repo worktree remove --force %s; git -C /repo worktree add -q %s HEAD" % (wt, wt))
        src = open(os.path.join(wt, m["path"])).read()
        res = {"props": m["props"], "note": m["note"], "path": m["path"]}
        if m["old"] not in src:
            res["status"] = "pattern-not-found"
        else:
            s2 = src.replace(m["old"], m["new"], 1)
            if "boolToInt" in m["new"]:
                s2 += "\nfunc boolToInt(b bool) int {\n\tif b {\n\t\treturn 1\n\t}\n\treturn 0\n}\n"
            open(os.path.join(wt, m["path"]), "w").write(s2)
            rc, out = sh(env + "go build ./... && go vet ./internal/ 2>/dev/null; go build ./...", cwd=wt)
            if rc != 0:
                res["status"] = "does-not-build"
                res["out"] = out[-400:]
            else:
                caught = []
                t0 = time.time()
                for p in m["props"]:
                    rc, out = sh("/verif/bin/gosmt check -prop %s -tier quick -repo %s -evdir %s" % (p, wt, ev))
                    viol = [l for l in out.splitlines() if l.startswith("VIOLATION")]
                    inc = [l for l in out.splitlines() if l.startswith("INCONCLUSIVE")]
                    if rc == 1 and viol:
                        caught.append(p)
                        res.setdefault("labels", []).extend(sorted(set(l.split("label=")[1].split(":")[0] for l in out.splitlines() if "counterexample" in l and "label=" in l))[:4])
                    elif rc == 2:
                        res.setdefault("inconclusive", []).append(p + ": " + (inc[0][:160] if inc else "?"))
                res["status"] = "caught" if caught else ("inconclusive" if res.get("inconclusive") else "missed")
                res["caught_by"] = caught
                res["secs"] = int(time.time() - t0)
        print(m["id"], res["status"], res.get("caught_by", ""), res.get("labels", "")[:3] if res.get("labels") else "", flush=True)
        report[m["id"]] = res
        json.dump(report, open(report_path, "w"), indent=1)
        sh("git -C /repo worktree remove --force %s; rm -rf %s" % (wt, ev))

if __name__ == "__main__":
    main()
