#!/bin/sh
# usage: tools/runall.sh quick|thorough  — runs every registered check on /repo and prints one verdict line each
cd /verif
tier=${1:-quick}
for p in $(python3 -c "import json; print(' '.join(sorted(json.load(open('checks.json')).keys())))"); do
  s=$(date +%s)
  out=$(./check $p $tier 2>&1); rc=$?
  echo "$p exit=$rc secs=$(( $(date +%s)-s )) $(echo "$out" | grep -cE '^KNOWN-FINDING') known-finding lines"
  [ $rc -ne 0 ] && echo "$out" | grep -E "^(VIOLATION|INCONCLUSIVE)" | head -5
done
